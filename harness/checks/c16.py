"""C16 -- both output layouts denote the same effect (and report the same attributes)."""
from .. import checklib, artefacts, tvcheck, tv, tlc


def run(ctx):
    art = artefacts.collect(ctx, n_corpus=(120, None), gen_modules=(("Gen_C05.tla", 2), ("Gen_C10.tla", 2), ("Gen_C02.tla", 16), ("Gen_C09.tla", 5), ("Gen_C06.tla", 2), ("Gen_C07.tla", 3)),
                             keep=lambda p: not (p["id"].startswith("imm-") and p["id"].endswith("-r"))
                             and not (p["id"].startswith("isa-wr-") and p["id"].rstrip("yz") != p["id"]))   # see C10 / C12
    two = [c for c in art.cases if len(c["obs"]) == 2]
    r, s = tv.run_tv(two, art.il_subs, art.c_subs, ctx.devsets(), tvcheck.nb(ctx.tier), ctx.seed, timeout=7200, static=True)
    if r.states == 0 or (r.error_text and "nvariant" not in r.error_text):
        raise tlc.TLCError("TV.tla did not run to completion:\n" + r.out[-4000:])
    reps = tvcheck.uniq_reports(r.reports["TVREPORT"])
    differ = {}
    for rep in reps:
        if any(v.get("same") is False for v in rep["v"]):
            differ.setdefault(rep["id"], rep)
    for cid, rep in differ.items():
        ctx.violation("the two layouts of %s denote different effects / attributes (input %d): %s" % (cid, rep["k"], artefacts.case_text(art, cid)),
                      {"kind": "layouts", "id": cid, "report": rep, "text": artefacts.case_text(art, cid)})
    # well-formedness / well-sortedness must not depend on the layout: a defect that BOTH layouts have is the matter of
    # C10 / C11 / C12 (and of their listed findings); a defect that only one layout has is a violation of C16
    import re as _re
    by_id = {}
    for x in tvcheck.uniq_reports(s.reports["STREPORT"]):
        # ownership reports ("own...": an IL node left unconsumed / used twice) do not change what the effect denotes: C12
        if x.get("sort") or (x.get("emitc") and not x["emitc"].startswith("own")):
            cls = (_re.sub(r"[A-Za-z_]+_\d+\b|\b\d+\b", "#", x.get("sort") or ""), _re.sub(r"[A-Za-z_]+_\d+\b|\b\d+\b", "#", x.get("emitc") or ""))
            by_id.setdefault(x["id"], {})[x["fmt"]] = (cls, x)
    for cid, d in by_id.items():
        classes = {f: v[0] for f, v in d.items()}
        if len(d) < 2 or len(set(classes.values())) > 1:
            x = sorted(d.items())[0][1][1]
            ctx.violation("only layout %s of %s is not well-formed/well-sorted (or the layouts fail differently): %s %s -- %s" % (
                "/".join(sorted(d)), cid, x.get("sort"), x.get("emitc"), artefacts.case_text(art, cid)),
                {"kind": "layout-static", "reports": [v[1] for v in d.values()], "text": artefacts.case_text(art, cid)})
    # acceptance must not depend on the layout (c01.build reports it for corpus instructions)
    cov = {
        "programs": len(two), "disagreements_checked": len(differ),
        "states": r.states, "transitions": r.transitions, "traces_validated_against_impl": 2 * len(two),
        "evaluations": r.states // 2, "distinct_nontrivial": len(two),
        "rule": "every accepted corpus part of the sample and every generated program is compiled with both CodeFormat values; TLC executes both "
                "effects from the same input states and compares final architectural state, all IL locals and the reported attribute sets",
        "samples": [{"id": c["id"], "text": c.get("text", "")[:160], "inputs": c["nin"]} for c in two[:3]],
        "exhaustive": False,
    }
    return ctx.finish("translation_validation", cov, ["A1-A7 (DESIGN.md section 5)"])


if __name__ == "__main__":
    checklib.main("C16", run)
