"""C10 -- emitted effects are well-sorted under RzIL typing (all paths)."""
from .. import checklib, staticprop


def run(ctx):
    return staticprop.run_static_property(
        ctx, "sort", "ill-sorted effect",
        "Sorts!CheckEff over the observed effect term: every BRANCH arm, loop body and inlined callee is checked, local sorts must be stable",
        gen=(("Gen_C02.tla", 6), ("Gen_C05.tla", 2), ("Gen_C10.tla", 1), ("Gen_C07.tla", 1)),
        # the catalogue observes through locals named r / q; the immediate letter r is itself an IL local of that name
        # (riV -> "r"), so 'int64_t r = riV' clashes by construction of the generator, not of the compiler
        keep=lambda p: not (p["id"].startswith("imm-") and p["id"].endswith("-r")))


if __name__ == "__main__":
    checklib.main("C10", run)
