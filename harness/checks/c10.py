"""C10 -- emitted effects are well-sorted under RzIL typing (all paths)."""
from .. import checklib, staticprop


def run(ctx):
    return staticprop.run_static_property(
        ctx, "sort", "ill-sorted effect",
        "Sorts!CheckEff over the observed effect term: every BRANCH arm, loop body and inlined callee is checked, local sorts must be stable",
        gen=(("Gen_C02.tla", 6), ("Gen_C05.tla", 2), ("Gen_C10.tla", 1)))


if __name__ == "__main__":
    checklib.main("C10", run)
