"""C11 -- emitted text is a well-formed C body with sound companion metadata."""
import json
import os
import shutil
import subprocess
import tempfile

from .. import checklib, staticprop, tlc, impl


def getters(ctx, art, cov):
    cp = art.cp
    d = tempfile.mkdtemp(prefix="verif_c11_")
    try:
        sf, of = os.path.join(d, "s.json"), os.path.join(d, "o.json")
        json.dump([[n, len(cp.beh[n])] for n in sorted(cp.beh)], open(sf, "w"))
        env = dict(os.environ, PYTHONPATH=impl.REPO, PYTHONDONTWRITEBYTECODE="1")
        p = subprocess.run([impl.PY, os.path.join(os.path.dirname(os.path.dirname(__file__)), "getters_driver.py"), sf, of],
                           cwd=impl.REPO, env=env, stdout=subprocess.PIPE, stderr=subprocess.PIPE)
        if p.returncode != 0:
            ctx.violation("RZILInstruction cannot be constructed: " + p.stderr.decode()[-300:], {"kind": "getters"})
            return
        r = tlc.run("Meta.tla", "Meta.cfg", env={"TV_FILE": of}, workers=1, tags=("MTREPORT",), timeout=600)
        if r.states == 0:
            raise tlc.TLCError("Meta.tla did not run:\n" + r.out[-2000:])
        seen = set()
        for rep in r.reports["MTREPORT"]:
            k = json.dumps(rep, sort_keys=True)
            if k in seen:
                continue
            seen.add(k)
            ctx.violation("companion record of %s: %s" % (rep.get("name"), rep.get("v")), {"kind": "getters", "report": rep})
        cov["getter_names_checked"] = len(cp.beh)
        # the flags of the instructions compiled in this run were fed to EmitC as the ambient identifiers:
        # a text that mentions hi/pkt without the flag fails with "use of undeclared identifier"
    finally:
        shutil.rmtree(d, ignore_errors=True)


def run(ctx):
    return staticprop.run_static_property(
        ctx, "emitc", "emitted text is not a well-formed body",
        "the emitted-text reader must accept the text (statement forms, balanced parentheses, final return) and the EmitC state machine "
        "checks declared-once / declared-before-use / valid identifiers / known callees; hi and pkt are in scope only if the needs-hi / "
        "needs-pkt flag is set (sub-routine bodies: only if the prologue declares them); getter names of all bundled instructions via Meta.tla",
        select=lambda v: not v.startswith("own"), extra=getters,
        gen=(("Gen_C02.tla", 8), ("Gen_C05.tla", 2), ("Gen_C10.tla", 2), ("Gen_C07.tla", 1), ("Gen_C06.tla", 1)))


if __name__ == "__main__":
    checklib.main("C11", run)
