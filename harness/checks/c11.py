"""C11 -- emitted text is a well-formed C body with sound companion metadata."""
import json
import os
import shutil
import subprocess
import tempfile

from .. import checklib, staticprop, tlc, impl


def getters(ctx, art, cov):
    cp = art.cp
    d = tempfile.mkdtemp(prefix="verif_c11_")
    try:
        sf, of = os.path.join(d, "s.json"), os.path.join(d, "o.json")
        json.dump([[n, len(cp.beh[n])] for n in sorted(cp.beh)], open(sf, "w"))
        env = dict(os.environ, PYTHONPATH=impl.REPO, PYTHONDONTWRITEBYTECODE="1")
        p = subprocess.run([impl.PY, os.path.join(os.path.dirname(os.path.dirname(__file__)), "getters_driver.py"), sf, of],
                           cwd=impl.REPO, env=env, stdout=subprocess.PIPE, stderr=subprocess.PIPE)
        if p.returncode != 0:
            ctx.violation("RZILInstruction cannot be constructed: " + p.stderr.decode()[-300:], {"kind": "getters"})
            return
        r = tlc.run("Meta.tla", "Meta.cfg", env={"TV_FILE": of}, workers=1, tags=("MTREPORT",), timeout=600)
        if r.states == 0:
            raise tlc.TLCError("Meta.tla did not run:\n" + r.out[-2000:])
        seen = set()
        for rep in r.reports["MTREPORT"]:
            k = json.dumps(rep, sort_keys=True)
            if k in seen:
                continue
            seen.add(k)
            ctx.violation("companion record of %s: %s" % (rep.get("name"), rep.get("v")), {"kind": "getters", "report": rep})
        cov["getter_names_checked"] = len(cp.beh)
        # the flags of the instructions compiled in this run were fed to EmitC as the ambient identifiers:
        # a text that mentions hi/pkt without the flag fails with "use of undeclared identifier"
    finally:
        shutil.rmtree(d, ignore_errors=True)


def gen_sub_definitions(ctx, art, cov):
    """generated sub-routine definitions whose bodies need hi / pkt (they read ISA registers and aliases) and whose
    parameter names contain the letters of those identifiers: the prologue must declare what the body mentions"""
    from .. import tvcheck, artefacts
    from ..front import cast as C
    S32, U32 = C.T(True, 32), C.T(False, 32)
    rs = C.reg("R", "s")
    subs = []
    for name, pname, pt, e in (
            ("gshift", "shift", S32, C.bin_("+", C.bin_("<<", rs, C.num(1)), C.var("shift"))),
            ("ghigh", "high", S32, C.bin_("-", rs, C.var("high"))),
            ("gpktlen", "pkt_len", U32, C.bin_("+", C.cast(U32, C.alias("LR")), C.var("pkt_len"))),
            ("gthis", "this", S32, C.bin_("^", C.cast(S32, C.alias("USR")), C.var("this"))),
            ("gamount", "amount", S32, C.bin_("+", rs, C.var("amount"))),
            ("gplain", "hi_val", S32, C.bin_("*", C.var("hi_val"), C.num(3)))):
        subs.append({"name": name, "void": False, "ret": pt, "params": [{"n": pname, "t": pt}], "body": [C.ret(e)]})
    from .. import corpus_tv
    steps = [{"op": "addsub", "inst": 0, "name": sd["name"], "ret": C.ctype(sd["ret"]),
              "params": ["HexInsnPktBundle *bundle"] + ["%s %s" % (C.ctype(q["t"]), q["n"]) for q in sd["params"]],
              "body": C.program_text(sd["body"])} for sd in subs]
    res = impl.run_jobs([{"id": "gensubs", "steps": steps}])["gensubs"]["res"]
    defs, errors = {}, {}
    for sd, r in zip(subs, res):
        if r.get("ok"):
            defs[sd["name"]] = r
        else:
            errors[sd["name"]] = r
    tab, evs, errs = corpus_tv.il_subs_table(defs)
    errors.update(errs)
    c_subs = {sd["name"]: {"params": [{"n": q["n"], "t": q["t"], "kind": "val"} for q in sd["params"]], "ret": sd["ret"], "void": False,
                           "body": sd["body"]} for sd in subs}
    mini = artefacts.Artefacts()
    mini.il_subs, mini.c_subs = tab, c_subs
    for sdef in subs:
        n = sdef["name"]
        if n not in tab:
            continue
        regs, imms = C.resources(sdef["body"])
        mini.cases.append({"id": "gensub:" + n, "src": {"kind": "sub", "body": sdef["body"], "params": c_subs[n]["params"], "void": False, "ret": sdef["ret"]},
                           "regs": regs, "imms": imms, "obs": [{"fmt": "DEF", "term": tab[n]["body"], "events": evs[n], "ambient": []}],
                           "cmpvars": [], "fam": "std", "gk": [], "nin": 1, "tags": ["sub"], "text": n, "attr_body": sdef["body"], "noped": False})
    if mini.cases:
        st, reps = artefacts.run_static(mini)
        for r in reps:
            v = r.get("emitc", "")
            if v and not v.startswith("own"):
                ctx.violation("generated sub-routine definition is not a well-formed body [%s]: %s" % (r["id"], v), {"kind": "gen-sub-emitc", "report": r})
        cov["generated_sub_definitions"] = len(mini.cases)


def extra_checks(ctx, art, cov):
    getters(ctx, art, cov)
    gen_sub_definitions(ctx, art, cov)


def run(ctx):
    return staticprop.run_static_property(
        ctx, "emitc", "emitted text is not a well-formed body",
        "the emitted-text reader must accept the text (statement forms, balanced parentheses, final return) and the EmitC state machine "
        "checks declared-once / declared-before-use / valid identifiers / known callees; hi and pkt are in scope only if the needs-hi / "
        "needs-pkt flag is set (sub-routine bodies: only if the prologue declares them); getter names of all bundled instructions via Meta.tla",
        select=lambda v: not v.startswith("own"), extra=extra_checks,
        gen=(("Gen_C02.tla", 8), ("Gen_C05.tla", 2), ("Gen_C10.tla", 2), ("Gen_C07.tla", 1, "insn"), ("Gen_C06.tla", 1)))


if __name__ == "__main__":
    checklib.main("C11", run)
