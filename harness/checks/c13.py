"""C13 -- reported attributes are exactly those of the instruction itself (static half; histories: see C14)."""
from .. import checklib, staticprop


def run(ctx):
    return staticprop.run_static_property(
        ctx, "meta", "attribute list differs from the part's own text",
        "Attrs!Attr(syntax tree of the part) versus the reported list (as a set, duplicates flagged); no-op list => NONE",
        gen=(("Gen_C05.tla", 2),), n_corpus=(300, None))


if __name__ == "__main__":
    checklib.main("C13", run)
