"""C13 -- reported attributes are exactly those of the instruction itself (static half; histories: see C14)."""
from .. import checklib, staticprop


def run(ctx):
    # explicit predicate spellings other than P0..P3 name no architectural register: not part of the domain
    return staticprop.run_static_property(
        ctx, "meta", "attribute list differs from the part's own text",
        "Attrs!Attr(syntax tree of the part) versus the reported list (as a set, duplicates flagged); no-op list => NONE",
        gen=(("Gen_C05.tla", 2), ("Gen_C07.tla", 1), ("Gen_C13.tla", 1)), n_corpus=(300, None), gen_kind="insn")


if __name__ == "__main__":
    checklib.main("C13", run)
