"""C03 -- casts and implicit conversions preserve the C value."""
from .. import checklib, tvprop


def run(ctx):
    rc, _ = tvprop.run_generated(
        ctx, "C03", "Gen_C03.tla",
        "programs = TLC enumeration of Gen_C03: 8x8 source/target types in 10 conversion contexts (cast, initialisation, assignment, 32-bit / pair / "
        "predicate register, store, call argument, return value, compound assignment), boolean sources x 8 targets x 3 contexts, chains of three "
        "conversions; 8-bit sources exhaustive, wider ones on boundary and random values")
    return rc


if __name__ == "__main__":
    checklib.main("C03", run)
