"""C05 -- statements take effect in source order under exactly C's conditions."""
from .. import checklib, tvprop


def run(ctx):
    rc, _ = tvprop.run_generated(
        ctx, "C05", "Gen_C05.tla",
        "programs = TLC enumeration of Gen_C05 (34 statement atoms alone, seeded pairs in 6 contexts, seeded skeletons of nesting <= 4, "
        "structural specials); inputs: low byte of RtV exhaustive (all trip counts 0..8 and branch outcomes) + boundary/random states")
    return rc


if __name__ == "__main__":
    checklib.main("C05", run)
