"""C04 -- common-type and promotion rules are exactly the C11 table (call-trace validation)."""
import json
import os
import shutil
import subprocess
import tempfile

from .. import checklib, tlc, impl

QUICK_W = [1, 7, 8, 9, 15, 16, 17, 31, 32, 33, 56, 63, 64, 65, 127, 128, 129, 255, 256, 1023, 1024, 1025, 2047, 2048]


def widths(tier):
    if tier == "quick":
        return QUICK_W
    w = set(range(1, 161)) | {8 * k for k in range(1, 257)}
    for p in range(0, 12):
        for d in (-1, 0, 1):
            if 1 <= 2 ** p + d <= 2048:
                w.add(2 ** p + d)
    return sorted(w)


def run(ctx):
    ws = widths(ctx.tier)
    d = tempfile.mkdtemp(prefix="verif_c04_")
    try:
        wf, ef = os.path.join(d, "w.json"), os.path.join(d, "ev.json")
        json.dump(ws, open(wf, "w"))
        env = dict(os.environ, PYTHONPATH=impl.REPO, PYTHONDONTWRITEBYTECODE="1")
        p = subprocess.run([impl.PY, os.path.join(os.path.dirname(os.path.dirname(__file__)), "ctypes_driver.py"), wf, ef],
                           cwd=impl.REPO, env=env, stdout=subprocess.PIPE, stderr=subprocess.PIPE)
        if p.returncode != 0:
            # the functions are public API of ValueType.py: if they cannot even be called, C04 is violated
            ctx.violation("c11_cast / promoted_type cannot be called: " + p.stderr.decode()[-300:], {"kind": "api"})
            return ctx.finish("model_checking", {"states": 1, "transitions": 1, "traces_validated_against_impl": 0,
                                                 "samples": ["driver failed"], "evaluations": 1, "distinct_nontrivial": 2})
        nev = len(json.load(open(ef))["events"])
        r = tlc.run("Trace_CTypes.tla", "Trace_CTypes.cfg", env={"TV_FILE": ef}, tags=("CTREPORT",), timeout=3000)
        if r.states < 2 * nev:
            raise tlc.TLCError("Trace_CTypes did not consume all events:\n" + r.out[-3000:])
        seen = set()
        for rep in r.reports["CTREPORT"]:
            key = json.dumps(rep.get("e"))
            if key in seen:
                continue
            seen.add(key)
            ctx.violation("%s: event %s" % (rep.get("v"), rep.get("e")), {"kind": "ctypes-event", "event": rep.get("e"), "verdict": rep.get("v")})
        cov = {
            "states": r.states, "transitions": r.transitions, "traces_validated_against_impl": nev,
            "evaluations": nev, "distinct_nontrivial": len({json.dumps(e) for e in json.load(open(ef))["events"]}),
            "rule": "one event per ordered pair of (signedness, width) over the width set, plus one per type for promotion; "
                    "plus the same calls with group flags (CONST, BOOL, HYBRID_LVAR) on the arguments, with one object on both sides, "
                    "and with a caller that changes every returned object in place before an identical later call (flag 64: shared state); widths: %d values from %d to %d" % (len(ws), ws[0], ws[-1]),
            "samples": json.load(open(ef))["events"][:3],
            "exhaustive": ctx.tier == "thorough" and False,
            "width_set_size": len(ws),
        }
        return ctx.finish("model_checking", cov, ["ValueType(signed, width) constructor and the _signed/_bit_width fields are the observation interface"])
    finally:
        shutil.rmtree(d, ignore_errors=True)


if __name__ == "__main__":
    checklib.main("C04", run)
