"""C14 -- compilation results do not depend on history or on earlier failures (also the history half of C13).
   (1) Lifecycle.tla model-checked exhaustively (all histories of depth <= 5 over 2 instances x 12 abstract behaviours);
   (2) TLC-simulated histories replayed on real Compiler instances, one process per history;
   (3) the recorded events validated by TLC against the specification (Trace_Lifecycle.tla)."""
import json
import os
import random
import re
import shutil
import tempfile

from .. import checklib, tlc, impl
from ..front import emitted

# abstract behaviour id -> concrete texts (each checked below to have the abstract features)
CATALOGUE = {
    "plain": ["{ RdV = RsV; }", "{ RdV = (RsV + RtV); }", "{ int32_t a = RsV; RddV = a; }"],
    "cond": ["{ if (RsV == siV) { RdV = siV; } }", "{ if (RtV) { RdV = uiV; } else { RdV = 0; } }"],
    "newld": ["{ EA = (RsV + uiV); RdV = (((int32_t)mem_load_u32(EA)) + NtN); }", "{ RdV = (((int8_t)mem_load_s8(RsV + siV)) + NtN); }"],
    "stjmp": ["{ mem_store_u32(RsV, RtV); JUMP(RsV); }", "{ mem_store_u8(RsV, RtV); JUMP(RtV + 4); }"],
    "wp0": ["{ P0 = RsV; }", "{ P0 = (RsV & 1); }"],
    "wp13": ["{ if (RsV) { P1 = 1; } P3 = RtV; }", "{ if (RtV) { P3 = 0; } P1 = RsV; }"],
    "wpd": ["{ PdV = RsV; }", "{ PdV = (RsV & RtV); }"],
    "hyb": ["{ i = 0; RdV = ((i++) + clz32(RsV)) + siV; }", "{ j = 1; RdV = ((j++) + clo32(RsV)) + uiV; }",
            # two side-effecting statements without a consumer (their order is kept by the name of their temporaries)
            "{ i = 0; j = 5; i++; j++; RdV = ((i * 16) + j) + siV; }", "{ i = 3; clz32(RsV); i++; clo32(RtV); RdV = i + uiV; }"],
    "f_parse": ["{ RdV = ; }", "{ RdV = RsV @ 1; }"],
    "f_late": ["{ if (RsV) { P2 = mem_load_u8(RsV + siV); } RdV = (clz32(RsV) + nofunc(RtV)); }",
               "{ if (RtV) { P2 = mem_load_u8(RtV + uiV); } i = 0; while ((i++) + clo32(RsV)) { } }",
               "{ if (RsV) { P2 = mem_load_u8(RsV + siV); } const uint32_t k; k = (clz32(RtV) + siV); }"],
    "f_type": ["{ const int32_t x = (NsN + siV); x = 1; }", "{ const uint32_t y = (NtN + uiV); y = 2; }"],
    # raise at the first leaf, after its attribute flag was set and before anything is in the holder
    "f_early": ["{ G5_NEW = RsV; }", "{ if (S2_NEW) { RdV = 1; } }"],
}
ORDER = ["plain", "cond", "newld", "stjmp", "wp0", "wp13", "wpd", "hyb", "f_parse", "f_late", "f_type", "f_early"]
SUBS = {"g1": ("uint32_t", ["uint32_t x"], "{ return x + 1; }"),
        "g2": ("int32_t", ["int32_t a", "int32_t b"], "{ int32_t t = a; if (t < b) { t = b; } return t; }")}


def normalise(text):
    """normal form of an emitted body: comments dropped, every declared identifier and every h_tmpN
    string replaced by its index of first occurrence (a bijective renaming)"""
    b = emitted.parse_body(text)
    names = {}
    tmps = {}

    def nm(x):
        if x not in names:
            names[x] = "v%d" % len(names)
        return names[x]

    def ser(e):
        t = e["t"]
        if t == "id":
            return names.get(e["n"], e["n"])
        if t == "addr":
            return "&" + names.get(e["n"], e["n"])
        if t == "str":
            s = e["s"]
            if re.match(r"^h_tmp\d+$", s):
                if s not in tmps:
                    tmps[s] = "h_tmp#%d" % len(tmps)
                s = tmps[s]
            return '"%s"' % s
        if t == "chr":
            return "'%s'" % e["s"]
        if t == "num":
            return str(e["v"])
        if t == "arrow":
            return e["b"] + "->" + e["m"]
        if t == "ccast":
            return "(%s)%s" % (e["ty"], ser(e["e"]))
        return "%s(%s)" % (e["f"], ",".join(ser(a) for a in e["a"]))

    out = []
    for d in b.decls:
        rhs = ser(d["expr"])
        out.append("%s %s=%s" % (d["kind"], nm(d["name"]), rhs))
    out.append("return " + ser(b.ret))
    return "\n".join(out)


def is_clean(p):
    if "unavailable" in p:
        return True, "internal layout changed: projection unavailable"
    dirty = []
    for k, v in p["flags"].items():
        if v:
            dirty.append("flag " + k)
    if p["preds"]:
        dirty.append("preds_written %s" % p["preds"])
    for k in ("read", "exec", "write", "pending"):
        if p[k]:
            dirty.append("%s ops %s" % (k, p[k][:3]))
    if p["imm"]:
        dirty.append("imm_set_effect_list %d" % p["imm"])
    if p["op_count"]:
        dirty.append("op_count %d" % p["op_count"])
    return not dirty, "; ".join(dirty)


def simulate_histories(num, depth, seed):
    cfg = os.path.join(tlc.SPEC, "build_Sim_Lifecycle_%d.cfg" % os.getpid())
    open(cfg, "w").write(open(os.path.join(tlc.SPEC, "Sim_Lifecycle.cfg")).read().replace("MaxHist = 12", "MaxHist = %d" % depth))
    try:
        r = tlc.run("Lifecycle.tla", os.path.basename(cfg), workers=1, seed=seed, depth=depth + 2, simulate="num=%d" % num,
                    tags=("LCHIST",), timeout=900)
    finally:
        os.remove(cfg)
    hs = []
    seen = set()
    for x in r.reports["LCHIST"]:
        k = json.dumps(x.get("h"))
        if "h" in x and k not in seen:
            seen.add(k)
            hs.append(x["h"])
    return hs, r


def run(ctx):
    rnd = random.Random(ctx.seed)
    mc = tlc.run("Lifecycle.tla", "MC_Lifecycle.cfg", workers=4, timeout=900)
    if not mc.ok:
        raise tlc.TLCError("Lifecycle.tla model check failed:\n" + mc.out[-3000:])
    nh, depth = (40, 12) if ctx.tier == "quick" else (400, 30)
    hists, simr = simulate_histories(nh, depth, ctx.seed)
    hists = hists[:nh]
    if not hists:
        raise tlc.TLCError("no histories generated:\n" + simr.out[-2000:])
    # histories around the decimal boundaries of the never-reset temporary counter: k compilations of a behaviour with one
    # temporary, then a behaviour with two temporaries whose relative order matters (k = 0..13; thorough: also 95..103)
    hyb = ORDER.index("hyb") + 1
    for k in list(range(0, 14)) + (list(range(95, 104)) if ctx.tier == "thorough" else []):
        for probe_ti, entry in ((2, "stmt"), (3, "stmt"), (2, "insn")):
            hists.append([{"op": "new", "c": 1}] + [{"op": "stmt", "c": 1, "b": hyb, "ti": 0}] * k + [{"op": entry, "c": 1, "b": hyb, "ti": probe_ti}])
    # a failure at every position: for every failing text and entry point, one history in which that failure precedes
    # every succeeding kind (entry points alternating), on one instance
    okkinds = [k for k in ORDER if not k.startswith("f_")]
    for fk in [k for k in ORDER if k.startswith("f_")]:
        for fti in range(len(CATALOGUE[fk])):
            for fentry in ("stmt", "insn"):
                h = [{"op": "new", "c": 1}]
                for i, k in enumerate(okkinds):
                    h.append({"op": fentry, "c": 1, "b": ORDER.index(fk) + 1, "ti": fti})
                    h.append({"op": ("stmt", "insn")[(i + fti) % 2], "c": 1, "b": ORDER.index(k) + 1, "ti": 0})
                hists.append(h)
    # fresh references: every catalogue text through both entry points, each in its own fresh process
    fresh_jobs = []
    for bid, texts in CATALOGUE.items():
        for ti, t in enumerate(texts):
            for entry in ("stmt", "insn"):
                st = {"op": "stmt", "inst": 0, "code": t} if entry == "stmt" else {"op": "insn", "inst": 0, "name": "X_%s" % bid, "behaviors": [t]}
                fresh_jobs.append({"id": "fresh|%s|%d|%s" % (bid, ti, entry), "proj_each": True,
                                   "steps": [{"op": "new", "inst": 0, "format": "READ_STATEMENTS"}, st]})
    fres = impl.run_jobs(fresh_jobs, mode="fresh")
    fresh = {}
    for j in fresh_jobs:
        r = fres[j["id"]]["res"][1]
        _, bid, ti, entry = j["id"].split("|")
        text = r.get("text") if entry == "stmt" else (r.get("rzil") or [None])[0]
        fresh[(bid, int(ti), entry)] = {
            "ok": r["ok"], "norm": normalise(text) if r["ok"] else None, "meta": r.get("meta", [None])[0] if entry == "insn" else None,
            "hyb": r["proj"].get("hyb_count", 0) - fres[j["id"]]["res"][0]["proj"].get("hyb_count", 0) if "hyb_count" in r.get("proj", {}) else 0,
        }
    # catalogue check: a late failure must really leave every channel dirty at the moment of the failure
    pj = [{"id": "probe|%d" % i, "steps": [{"op": "new", "inst": 0, "format": "READ_STATEMENTS"}, {"op": "probe", "inst": 0, "code": t}]}
          for i, t in enumerate(CATALOGUE["f_late"])]
    pres = impl.run_jobs(pj, mode="fresh")
    for j in pj:
        r = pres[j["id"]]["res"][1]
        b = r.get("before_reset", {})
        if "unavailable" in b or not b:
            ctx.notes.append("catalogue probe unavailable (internal layout changed)")
            continue
        okc = (not r["ok"]) and b["pending"] and b["imm"] and b["preds"] and any(b["flags"].values()) and b["write"]
        if not okc:
            raise RuntimeError("catalogue entry f_late %s does not leave all channels dirty: %s" % (j["id"], b))
    # catalogue sanity: failing entries fail, others compile, in a fresh compiler
    for (bid, ti, entry), f in fresh.items():
        if f["ok"] == bid.startswith("f_"):
            ctx.notes.append("catalogue entry %s/%d (%s) %s in a fresh compiler" % (bid, ti, entry, "compiles" if f["ok"] else "fails"))
    # replay
    jobs = []
    plan = {}
    for hi, h in enumerate(hists):
        steps = []
        pl = []
        for e in h:
            c = e["c"] - 1
            if e["op"] == "new":
                steps.append({"op": "new", "inst": c, "format": rnd.choice(["READ_STATEMENTS", "READ_STATEMENTS", "EXEC_CLASSES"]) if False else "READ_STATEMENTS"})
                pl.append(("new", e["c"], None, None))
            elif e["op"] in ("stmt", "insn"):
                bid = ORDER[e["b"] - 1]
                ti = e["ti"] if "ti" in e else rnd.randrange(len(CATALOGUE[bid]))
                t = CATALOGUE[bid][ti]
                if e["op"] == "stmt":
                    steps.append({"op": "stmt", "inst": c, "code": t})
                else:
                    steps.append({"op": "insn", "inst": c, "name": "X_%s" % bid, "behaviors": [t]})
                pl.append((e["op"], e["c"], e["b"], (bid, ti)))
            elif e["op"] == "addsub":
                ret, params, body = SUBS[e["b"]]
                steps.append({"op": "addsub", "inst": c, "name": e["b"], "ret": ret, "params": params, "body": body})
                pl.append(("addsub", e["c"], e["b"], None))
        jobs.append({"id": "h%d" % hi, "proj_each": True, "steps": steps})
        plan["h%d" % hi] = pl
    res = impl.run_jobs(jobs, mode="fresh")
    traces = []
    for j in jobs:
        r = res[j["id"]]
        if r.get("harness_error"):
            raise impl.ImplError(r["harness_error"])
        evs = []
        for (op, c, b, key), st, rr in zip(plan[j["id"]], j["steps"], r["res"]):
            pr = rr.get("proj", {})
            clean, dirty = is_clean(pr) if pr else (True, "")
            ev = {"op": op, "c": c, "ok": bool(rr["ok"]), "clean": clean, "dirty": dirty, "hyb": pr.get("hyb_count", 0)}
            if op in ("stmt", "insn"):
                f = fresh[(key[0], key[1], op)]
                ev["b"] = b
                ev["dhyb"] = f["hyb"]
                if rr["ok"] and f["ok"]:
                    text = rr.get("text") if op == "stmt" else rr["rzil"][0]
                    try:
                        ev["same"] = normalise(text) == f["norm"]
                    except emitted.EmittedFormatError:
                        ev["same"] = False
                    ev["meta"] = (op == "stmt") or (sorted(rr["meta"][0]) == sorted(f["meta"]) and len(rr["meta"][0]) == len(f["meta"]))
                else:
                    ev["same"] = True
                    ev["meta"] = True
                ev["text"] = st.get("code") or st["behaviors"][0]
            elif op == "addsub":
                ev["r"] = b
            evs.append(ev)
        traces.append({"id": j["id"], "events": evs})
    d = tempfile.mkdtemp(prefix="verif_c14_")
    try:
        tf = os.path.join(d, "tr.json")
        json.dump({"traces": traces}, open(tf, "w"))
        tv = tlc.run("Trace_Lifecycle.tla", "Trace_Lifecycle.cfg", env={"TV_FILE": tf}, workers=4, tags=("LCREPORT",), timeout=1800)
        if tv.states == 0 or tv.error_text:
            if tv.invariant_violated:
                ctx.violation("Lifecycle invariant %s violated while replaying a recorded history" % tv.invariant_violated,
                              {"kind": "lifecycle-invariant", "out": tv.out[-3000:]})
            else:
                raise tlc.TLCError("Trace_Lifecycle did not run:\n" + tv.out[-3000:])
        byid = {t["id"]: t for t in traces}
        seen = set()
        for rep in tv.reports["LCREPORT"]:
            if rep.get("id") in seen or "id" not in rep:
                continue
            seen.add(rep["id"])
            ctx.violation("history %s: %s" % (rep["id"], rep["v"]), {"kind": "lifecycle", "trace": byid[rep["id"]], "verdict": rep["v"]})
    finally:
        shutil.rmtree(d, ignore_errors=True)
    nsteps = sum(len(t["events"]) for t in traces)
    cov = {
        "states": mc.states + tv.states, "transitions": mc.transitions + tv.transitions,
        "spec_states_exhaustive": mc.states, "trace_states": tv.states,
        "traces_validated_against_impl": len(traces) - len(seen),
        "evaluations": nsteps, "distinct_nontrivial": len({json.dumps([(e["op"], e["c"], e.get("b")) for e in t["events"]]) for t in traces}),
        "rule": "histories = TLC simulation of Lifecycle.tla (2 instances, 12 abstract behaviours incl. 4 failing kinds (parse error, late, type error, first leaf), both entry points, "
                "add_sub_routine), depth %d, plus directed histories (temporary-counter boundaries; every failing text before every succeeding kind); each abstract behaviour is mapped to one of several concrete texts; every history runs in its own "
                "process; distinct = different action sequences" % depth,
        "samples": [[(e["op"], e["c"], e.get("b"), e["ok"]) for e in traces[0]["events"]]],
        "history_steps": nsteps, "exhaustive": False,
    }
    return ctx.finish("model_checking", cov, [
        "the projection of internal state (flags, holder maps, counters) is diagnostic; the verdict on outputs uses public API only",
        "normalisation = bijective renaming of generated identifiers and h_tmpN by first occurrence, comments dropped"])


if __name__ == "__main__":
    checklib.main("C14", run)
