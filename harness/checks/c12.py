"""C12 -- IL node ownership is linear: one consuming use, DUP for the rest."""
from .. import checklib, staticprop


def run(ctx):
    return staticprop.run_static_property(
        ctx, "emitc", "ownership discipline broken",
        "EmitC state machine over the statements of the emitted text: raw-use and DUP counters per declared pure/effect variable and borrowed parameter",
        select=lambda v: v.startswith("own"),
        gen=(("Gen_C02.tla", 8), ("Gen_C05.tla", 2), ("Gen_C10.tla", 2), ("Gen_C07.tla", 1), ("Gen_C06.tla", 1)),
        # a read-write operand (access letters y, z) that is only written does not occur in the ISA (that is a 'd' or 'e' operand);
        # the compiler declares its read unconditionally, so the write-only catalogue programs on y/z are outside the domain
        keep=lambda p: not (p["id"].startswith("isa-wr-") and p["id"].rstrip("yz") != p["id"]))


if __name__ == "__main__":
    checklib.main("C12", run)
