"""C12 -- IL node ownership is linear: one consuming use, DUP for the rest."""
from .. import checklib, staticprop


def run(ctx):
    return staticprop.run_static_property(
        ctx, "emitc", "ownership discipline broken",
        "EmitC state machine over the statements of the emitted text: raw-use and DUP counters per declared pure/effect variable and borrowed parameter",
        select=lambda v: v.startswith("own:"),
        gen=(("Gen_C02.tla", 8), ("Gen_C05.tla", 2), ("Gen_C10.tla", 2)))


if __name__ == "__main__":
    checklib.main("C12", run)
