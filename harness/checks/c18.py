"""C18 -- pooled parsing equals sequential parsing and isolates failures.
   (1) ParsePool.tla model-checked exhaustively (safety + termination under weak fairness);
   (2) TLC-generated schedules (simulation of ParsePool) imposed on the real pool;
   (3) per-process event traces of the real runs validated against the spec by TLC."""
import json
import os
import random
import re
import shutil
import subprocess
import tempfile

from .. import checklib, tlc, impl, corpus

BROKEN = ["{ RdV = ; }", "{ RdV = RsV @ 1; }", "{ RdV = (RsV + ; }", "{ if (RsV) { RdV = 1; }", "{ RdV = RsV $$; }"]


# Texts that differ only in the white space between operator characters (different token sequences, hence different
# trees or a syntax error) and texts that are equal up to white space between tokens (same tree).  A worker that keeps
# trees between tasks under a normalised key, or a parser object with state, shows on these and on nothing else.
LOOKALIKE = [
    ("{ RdV = RsV++ + RtV; }", "{ RdV = RsV + ++RtV; }", 0),
    ("{ RdV = RsV << RtV; }", "{ RdV = RsV < <RtV; }", 2),
    ("{ RdV = RsV >= RtV; }", "{ RdV = RsV > =RtV; }", 2),
    ("{ RdV = RsV-- - RtV; }", "{ RdV = RsV - --RtV; }", 0),
    ("{ RdV = RsV && RtV; }", "{ RdV = RsV & &RtV; }", 0),
    ("{ RdV = RsV + RtV; }", "{ RdV=RsV+RtV ; }", 0),
    ("{ RdV += RsV; }", "{ RdV + = RsV; }", 2),
    ("{ RdV = RsV; }", "{ RdV = RsV; }", 0),
]


def lookalike_scenarios():
    out = []
    k = 0
    for (a, b, bad) in LOOKALIKE:
        for order in (0, 1):
            x, y = (a, b) if order == 0 else (b, a)
            fx, fy = (0, 1 if bad else 0) if order == 0 else (1 if bad else 0, 0)
            # consecutive tasks (one worker when the pool has size 1: the same process certainly parses all of them, in
            # this order) and the two texts as the parts of one behaviour (always one worker)
            k += 1
            out.append({"id": "like-%d" % k, "names": ["L1", "L2", "L3", "M1"],
                        "behaviors": {"L1": [x], "L2": [y], "L3": [x], "M1": [x, y]}, "pool": 1 + order,
                        "delays": {"4": 0.05} if order else {}, "failat": [fx, fy, fx, 1 if fx else (2 if fy else 0)]})
    return out


def simulate_schedules(n_tasks, max_w, num, seed, depth=80):
    d = tempfile.mkdtemp(prefix="verif_simpp_")
    try:
        cfg = os.path.join(tlc.SPEC, "build_Sim_ParsePool_%d.cfg" % os.getpid())
        open(cfg, "w").write("SPECIFICATION Spec\nCONSTANTS N = %d\nMaxW = %d\nCHECK_DEADLOCK FALSE\n" % (n_tasks, max_w))
        try:
            r = tlc.run("ParsePool.tla", os.path.basename(cfg), workers=1, seed=seed, depth=depth,
                        simulate="file=%s/tr,num=%d" % (d, num), timeout=600)
        finally:
            os.remove(cfg)
        out = []
        for fn in sorted(os.listdir(d)):
            txt = open(os.path.join(d, fn)).read()
            states = txt.split("STATE_")[1:]
            if not states:
                continue

            def var(st, name):
                m = re.search(r"/\\ %s = (.*)" % name, st)
                return m.group(1).strip() if m else None

            def seqints(s):
                return [int(x) for x in re.findall(r"-?\d+", s)]

            W = int(var(states[0], "W"))
            parts = seqints(var(states[0], "Parts"))
            failat = seqints(var(states[0], "FailAt"))
            finish = []
            prev = seqints(var(states[0], "worker"))
            for st in states[1:]:
                cur = seqints(var(st, "worker"))
                for a, b in zip(prev, cur):
                    if a != 0 and b != a:
                        finish.append(a)
                prev = cur
            out.append({"W": W, "parts": parts, "failat": failat, "finish_order": finish})
        return out, r
    finally:
        shutil.rmtree(d, ignore_errors=True)


def short_behaviours(rnd, n):
    beh = corpus.load_behaviors()
    names = sorted(k for k, v in beh.items() if len(v) == 1 and len(v[0]) < 70 and "V6" not in k)
    rnd.shuffle(names)
    return [(k, beh[k][0]) for k in names[:n]]


def scenario_from_schedule(i, sch, rnd, pool_override=None):
    n = len(sch["parts"])
    texts = short_behaviours(rnd, 2 * n)
    names, behs = [], {}
    ti = 0
    for t in range(n):
        nm = "T%02d_%s" % (t + 1, texts[ti][0])
        parts = []
        for pidx in range(sch["parts"][t]):
            if sch["failat"][t] == pidx + 1:
                parts.append(rnd.choice(BROKEN))
            else:
                parts.append(texts[ti][1])
                ti += 1
        names.append(nm)
        behs[nm] = parts
    delays = {}
    order = sch["finish_order"]
    for rank, t in enumerate(order):
        delays[str(t)] = round(0.04 * rank, 3)
    return {"id": "sched-%d" % i, "names": names, "behaviors": behs, "pool": pool_override or sch["W"], "delays": delays,
            "schedule": sch, "failat": list(sch["failat"])}


def run(ctx):
    rnd = random.Random(ctx.seed)
    # (1) design-level exhaustive check
    mc = tlc.run("ParsePool.tla", "MC_ParsePool.cfg", workers=8, timeout=1200)
    if not mc.ok:
        raise tlc.TLCError("ParsePool.tla model check failed (specification error):\n" + mc.out[-3000:])
    # (2) schedules
    nsched = 24 if ctx.tier == "quick" else 200
    scheds, simr = simulate_schedules(6 if ctx.tier == "quick" else 10, 4, nsched, ctx.seed)
    scenarios = [scenario_from_schedule(i, s, rnd) for i, s in enumerate(scheds)]
    # larger pools / more tasks without an imposed schedule
    extra_pools = [8, 16] if ctx.tier == "quick" else [5, 8, 12, 16, 16]
    for j, k in enumerate(extra_pools):
        n = 24 if ctx.tier == "quick" else 60 + 10 * j
        sch = {"W": k, "parts": [rnd.choice([1, 1, 2]) for _ in range(n)], "failat": [0] * n, "finish_order": []}
        for t in range(n):
            if rnd.random() < 0.2:
                sch["failat"][t] = rnd.randint(1, sch["parts"][t])
        sc = scenario_from_schedule(1000 + j, sch, rnd)
        sc["delays"] = {str(t + 1): round(rnd.random() * 0.05, 3) for t in range(n) if rnd.random() < 0.3}
        scenarios.append(sc)
    scenarios += lookalike_scenarios()
    d = tempfile.mkdtemp(prefix="verif_c18_")
    try:
        sf, tf = os.path.join(d, "sc.json"), os.path.join(d, "tr.json")
        json.dump(scenarios, open(sf, "w"))
        env = dict(os.environ, PYTHONPATH=impl.REPO, PYTHONDONTWRITEBYTECODE="1", PYTHONHASHSEED="0")
        p = subprocess.run([impl.PY, os.path.join(os.path.dirname(os.path.dirname(__file__)), "pool_driver.py"), sf, tf],
                           cwd=impl.REPO, env=env, stdout=subprocess.PIPE, stderr=subprocess.PIPE, timeout=3000)
        if p.returncode != 0 or not os.path.exists(tf):
            ctx.violation("Parser.parse could not be driven: " + p.stderr.decode()[-400:], {"kind": "driver"})
            return ctx.finish("model_checking", {"states": mc.states, "transitions": mc.transitions,
                                                 "traces_validated_against_impl": 0, "samples": ["driver failed"]})
        traces = json.load(open(tf))["traces"]
        for tr in traces:
            if tr["error"]:
                ctx.violation("%s: %s" % (tr["id"], tr["error"]), {"kind": "raised", "trace": tr})
            if tr["extra_keys"]:
                ctx.violation("%s: result has entries for unknown names %s" % (tr["id"], tr["extra_keys"]), {"kind": "extra", "trace": tr})
        tv = tlc.run("Trace_ParsePool.tla", "Trace_ParsePool.cfg", env={"TV_FILE": tf}, workers=1, tags=("PPREPORT",), timeout=3000)
        if tv.states == 0:
            raise tlc.TLCError("Trace_ParsePool did not run:\n" + tv.out[-3000:])
        rejected = {}
        for rep in tv.reports["PPREPORT"]:
            if "id" in rep:
                rejected[rep["id"]] = rep["v"]
        byid = {t["id"]: t for t in traces}
        scid = {s["id"]: s for s in scenarios}
        for tid, why in rejected.items():
            ctx.violation("trace %s rejected by ParsePool: %s" % (tid, why),
                          {"kind": "pool-trace", "trace": byid.get(tid), "scenario": scid.get(tid)})
        realized = sum(1 for t in traces if len(t["procs"]) > 1)
        cov = {
            "states": mc.states + tv.states, "transitions": mc.transitions + tv.transitions,
            "spec_states_exhaustive": mc.states, "trace_states": tv.states,
            "traces_validated_against_impl": len(traces) - len(rejected),
            "evaluations": len(traces), "distinct_nontrivial": realized,
            "rule": "one real Parser.parse run per TLC-simulated ParsePool behaviour (pool size, parts, failing parts, completion order "
                    "imposed by per-task delays) plus runs with pool sizes up to 16; non-trivial = more than one worker process took part",
            "samples": [{"id": t["id"], "pool": t["pool"], "workers_seen": t["nworkers_seen"], "parent": t["parent"][:4]} for t in traces[:3]],
            "pool_sizes": sorted({t["pool"] for t in traces}),
            "exhaustive": False,
        }
        return ctx.finish("model_checking", cov, [
            "OS scheduling is steered (delays) and recorded, not enumerated; each recorded run is validated as a ParsePool behaviour",
            "events are ordered per process by a sequence number; TLC searches the interleaving"])
    finally:
        shutil.rmtree(d, ignore_errors=True)


if __name__ == "__main__":
    checklib.main("C18", run)
