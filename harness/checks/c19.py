"""C19 -- loading and splitting resolved shortcode loses nothing."""
import json
import os
import shutil
import subprocess
import tempfile

from .. import checklib, tlc, impl, corpus
from ..front import cparse, cast


def run(ctx):
    d = tempfile.mkdtemp(prefix="verif_c19_")
    try:
        gen = os.path.join(d, "cases.json")
        r = tlc.run("Shortcode.tla", "Shortcode_gen.cfg", env={"VERIF_TIER": ctx.tier, "GEN_OUT": gen, "TV_FILE": "/dev/null"},
                    workers=1, timeout=900)
        if not os.path.exists(gen):
            raise tlc.TLCError("Shortcode generator failed:\n" + r.out[-2000:])
        cases = json.load(open(gen))
        # the bundled file: every line is a well-formed case whose expectation comes from the oracle's own loader
        nb = 0
        with open(corpus.res("Preprocessor/shortcode_resolved.h")) as f:
            for line in f:
                if line.startswith("#") or not line.strip():
                    continue
                name, body = corpus.split_line(line)
                cases.append({"kind": "line", "line": line.rstrip("\n"), "wf": True, "name": name, "body": body})
                nb += 1
                if corpus.MARK in body:
                    try:
                        p1, p2 = corpus.split_compound(body)
                        st = [cast.ps(x) for part in (p1, p2) for x in cast.flat_stmts(cparse.parse_body(part))]
                        cases.append({"kind": "compound", "body": body, "stmts": st, "npre": 0, "bundled": name})
                    except cparse.ParseError:
                        pass
        # normalise the expected statements of generated compounds with the same printer
        for c in cases:
            if c["kind"] == "compound" and "bundled" not in c:
                c["stmts"] = [cast.ps(x) for x in cast.flat_stmts(cparse.parse_body("{ " + " ".join(c["stmts"]) + " }"))]
        cf, ef = os.path.join(d, "c.json"), os.path.join(d, "e.json")
        json.dump(cases, open(cf, "w"))
        env = dict(os.environ, PYTHONPATH=impl.REPO, PYTHONDONTWRITEBYTECODE="1")
        p = subprocess.run([impl.PY, os.path.join(os.path.dirname(os.path.dirname(__file__)), "shortcode_driver.py"), cf, ef,
                            checklib.ROOT], cwd=impl.REPO, env=env, stdout=subprocess.PIPE, stderr=subprocess.PIPE, timeout=3000)
        if p.returncode != 0:
            ctx.violation("the split/load functions cannot be driven: " + p.stderr.decode()[-400:], {"kind": "driver"})
            return ctx.finish("model_checking", {"states": 1, "transitions": 1, "traces_validated_against_impl": 0, "samples": ["driver failed"]})
        out = json.load(open(ef))
        tf = os.path.join(d, "tv.json")
        json.dump({"cases": cases, "events": out["events"]}, open(tf, "w"))
        v = tlc.run("Shortcode.tla", "Shortcode.cfg", env={"TV_FILE": tf, "VERIF_TIER": ctx.tier, "GEN_OUT": "/dev/null"},
                    tags=("SCREPORT",), timeout=3000)
        if v.states < 2 * len(out["events"]):
            raise tlc.TLCError("Shortcode.tla did not consume all events:\n" + v.out[-3000:])
        seen = set()
        for rep in v.reports["SCREPORT"]:
            i = rep.get("i")
            if i in seen or i is None:
                continue
            seen.add(i)
            c = cases[i - 1]
            f = None
            for kf in ctx.findings_for("shape"):
                if kf.get("verdict") == rep["v"] and (
                        (c["kind"] == "compound" and kf.get("key") == "npre>0" and c.get("npre", 0) > 0)
                        or (c["kind"] == "line" and kf.get("key") == "variant=%s" % c.get("variant"))):
                    f = kf
            if f:
                ctx.note_known(f, (c.get("line") or c.get("body"))[:120])
            else:
                ctx.violation("%s: %r" % (rep["v"], (c.get("line") or c.get("body"))[:200]), {"kind": "shortcode", "case": c, "verdict": rep["v"]})
        for l in out["loads"]:
            if not l["good"]:
                f = None
                for kf in ctx.findings_for("shape"):
                    if kf.get("key") == "load:" + l["label"]:
                        f = kf
                if f:
                    ctx.note_known(f, l["label"])
                else:
                    ctx.violation("load_insn_behavior on a generated file (%s): expected %s, got %s" % (l["label"], l["expect"], l["out"]),
                                  {"kind": "load", "load": l})
        cov = {
            "states": v.states, "transitions": v.transitions, "traces_validated_against_impl": len(out["events"]) + len(out["loads"]),
            "evaluations": len(cases), "distinct_nontrivial": len({json.dumps(c, sort_keys=True) for c in cases}),
            "rule": "cases = every body over a 12-atom alphabet up to length %d with 4 names, 27 malformed variants, 450 compound bodies with "
                    "0..2 statements before/between/after the markers, all %d bundled lines and their compounds; distinct by construction"
                    % (5 if ctx.tier == "thorough" else 4, nb),
            "samples": [cases[7], cases[-1]["body"][:100] if cases[-1]["kind"] == "compound" else cases[-1]["line"][:100]],
            "bundled_lines": nb, "file_level_loads": len(out["loads"]), "exhaustive": True,
        }
        return ctx.finish("model_checking", cov, ["the independent parser (harness/front/cparse.py) extracts the statement lists of the returned parts"])
    finally:
        shutil.rmtree(d, ignore_errors=True)


if __name__ == "__main__":
    checklib.main("C19", run)
