"""C06 -- value-producing side effects happen exactly once, in order, only when selected."""
from .. import checklib, tvprop


def run(ctx):
    rc, _ = tvprop.run_generated(
        ctx, "C06", "Gen_C06.tla",
        "programs = TLC enumeration of Gen_C06: 9 hybrid operations (postfix ++/-- on a local and a register, bundled / generated / nested calls, "
        "statement-expressions) x 13 positions (initialiser, rhs, if / ?: / loop condition, ?: arms, call argument, expression statement, loop body, "
        "store operand, right operand of &&) surrounded by non-commuting updates of the modified object, seeded pairs of hybrids, a control program",
        must_accept=False)
    return rc


if __name__ == "__main__":
    checklib.main("C06", run)
