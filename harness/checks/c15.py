"""C15 -- nothing in the source is silently dropped: translate it or raise."""
import json

from .. import checklib, tvcheck, tv
from ..checks import c01


def run(ctx):
    progs, g = tvcheck.generate("Gen_C15.tla", ctx.seed, ctx.tier)
    if ctx.replay:
        rp = json.load(open(ctx.replay))
        pid = rp.get("program", {}).get("id")
        progs = [p for p in progs if p["id"] == pid] or progs[:3]
    il_subs, c_subs, reg, sub_errors, _ = tvcheck.prepare_subs([])
    # which programs does the specification give a meaning to?
    verdicts, dr = c01.run_dialect([{"id": p["id"], "body": p["body"]} for p in progs], c_subs)
    meaning = {}
    for x in dr.reports["DLREPORT"]:
        if "id" in x:
            meaning[x["id"]] = bool(x.get("meaning"))
    res = tvcheck.run_batch(ctx, progs, il_subs=il_subs, c_subs=c_subs)
    accepted_without_meaning = 0
    for pid, (p, case) in res.cases.items():
        if not meaning.get(pid, False):
            accepted_without_meaning += 1
            f = None
            for kf in ctx.findings_for("construct"):
                if len(p["tags"]) > 1 and kf["construct"] == p["tags"][1]:
                    f = kf
            if f:
                ctx.note_known(f, p["text"][:140])
            else:
                ctx.violation("code returned for a program containing an untranslatable construct (%s): %s" % (
                    " at ".join(p["tags"][1:3]), p["text"][:200]), {"kind": "accepted-unsupported", "program": p})
    # programs with a meaning: the returned code must be right (TV); reports for the others are not judged twice
    judged = tvcheck.TVRun()
    judged.cases = {pid: v for pid, v in res.cases.items() if meaning.get(pid, False)}
    judged.reports = [r for r in res.reports if r["id"] in judged.cases]
    # programs of a listed construct finding (keyed by the generator's construct tag): a mismatch is that finding
    cons = {kf["construct"]: kf for kf in ctx.findings_for("construct")}
    keep = []
    for r in judged.reports:
        p = judged.cases[r["id"]][0]
        if len(p["tags"]) > 1 and p["tags"][1] in cons and any(v.get("r") == "mismatch" for v in r["v"]):
            ctx.note_known(cons[p["tags"][1]], p["text"][:140])
        else:
            keep.append(r)
    judged.reports = keep
    cnt = tvcheck.classify_tv(ctx, judged)
    # declared but never sequenced effects / pures
    for x in res.sreports:
        if x.get("emitc", "").startswith("own: initialised but never consumed") and meaning.get(x["id"], False):
            p, case = res.cases[x["id"]]
            # (no listed SHAPE drops an effect: the shapes of known_findings.json misplace effects, they never lose them; a listed
            # CONSTRUCT -- keyed by the generator's construct tag -- may)
            fk = [kf for kf in ctx.findings_for("construct") if len(p["tags"]) > 1 and kf["construct"] == p["tags"][1]]
            if fk:
                ctx.note_known(fk[0], p["text"][:140])
            else:
                ctx.violation("an effect is declared but never sequenced (%s): %s" % (x["emitc"], p["text"][:200]),
                              {"kind": "unsequenced", "program": p, "report": x})
    for u in res.unreadable:
        ctx.violation("emitted text unreadable: %s" % (u,), {"kind": "unreadable", "id": u[0]})
    cov = {
        "programs": res.programs, "accepted": res.accepted, "rejected": len(res.rejected),
        "accepted_with_meaning": len(judged.cases), "accepted_without_meaning": accepted_without_meaning,
        "disagreements_checked": cnt["mismatch"] + cnt["deviation"],
        "states": res.states + dr.states, "transitions": res.transitions + dr.transitions,
        "traces_validated_against_impl": res.accepted * 2, "evaluations": res.programs, "distinct_nontrivial": res.programs,
        "rule": "programs = TLC enumeration of Gen_C15: 15 statement-level constructs x 8 statement positions and 9 expression-level constructs x 6 "
                "expression positions + control; CSem!HasMeaning decides which programs must be translated correctly if accepted (while, do, "
                "break/continue, comma, prefix) and for which returning code is itself the violation (goto, labels, switch, unknown calls, array / "
                "member access, * and &); every program is distinct",
        "verdict_counts": cnt,
        "rejected_constructs": sorted({(r[0].split("-")[1] if "-" in r[0] else r[0]) for r in res.rejected})[:30],
        "samples": tvcheck.samples_of(res) or [{"id": p["id"], "c_text": p.get("text", "")} for p in progs[:2]],
        "exhaustive": True,
    }
    return ctx.finish("translation_validation", cov, tvprop_assume())


def tvprop_assume():
    from ..tvprop import ASSUME
    return ASSUME


if __name__ == "__main__":
    checklib.main("C15", run)
