"""C07 -- operands are bound to the right architectural resource, width and .new flag."""
import collections

from .. import checklib, tvprop


def run(ctx):
    def post(ctx, res, progs):
        # vacuity guard: every operand class must have accepted representatives
        acc = collections.Counter()
        for pid, (p, case) in res.cases.items():
            acc[p["tags"][0]] += 1
        for cls in ("isa", "explicit", "alias", "imm", "load", "store", "jump"):
            if acc[cls] == 0:
                ctx.violation("no operand of class %s is accepted at all" % cls, {"kind": "vacuous", "class": cls})
        ctx.notes.append("accepted per class: %s" % dict(acc))

    rc, _ = tvprop.run_generated(
        ctx, "C07", "Gen_C07.tla",
        "programs = TLC enumeration of the operand catalogue (Gen_C07): 7 register type letters x 10 access letters + 7 pair letters x V/N, 48 explicit "
        "registers and 4 explicit pairs x _NEW, 18 aliases x _NEW, 8 immediate letters, loads/stores of 4 widths x 2 signs, JUMP, PC; each in read / "
        "read-.new / write / read-modify-write programs; a spelling the compiler rejects is not judged",
        must_accept=False, post=post)
    return rc


if __name__ == "__main__":
    checklib.main("C07", run)
