"""C20 -- macro resolution equals standard C preprocessing under the patched macro set."""
import json
import os
import random
import shutil
import subprocess
import tempfile

from .. import checklib, tlc, impl, corpus
from ..front import cpptok


def scratch_copy():
    d = tempfile.mkdtemp(prefix="verif_c20_")
    shutil.copytree(os.path.join(impl.REPO, "Resources"), os.path.join(d, "Resources"))
    subprocess.run(["git", "init", "-q"], cwd=d, check=True)
    return d


def drive(job, scratch):
    jf, of = os.path.join(scratch, "job.json"), os.path.join(scratch, "out.json")
    json.dump(job, open(jf, "w"))
    env = dict(os.environ, PYTHONPATH=impl.REPO, PYTHONDONTWRITEBYTECODE="1")
    p = subprocess.run([impl.PY, os.path.join(os.path.dirname(os.path.dirname(__file__)), "cpp_driver.py"), jf, of],
                       cwd=scratch, env=env, stdout=subprocess.PIPE, stderr=subprocess.PIPE, timeout=3000)
    if p.returncode != 0 or not os.path.exists(of):
        return None, p.stderr.decode()[-500:]
    return json.load(open(of)), ""


def gen_strip_bodies(rnd, n):
    """bodies with nested / sequential do-while(0) wrappers and look-alike identifiers"""
    atoms = ["a = 1;", "f(b, c);", "{ d; }", "if (e) { g; }", "redo = 2;", "do_x(y);", "while0(z);", "x = undo;"]

    def wrap(s):
        return rnd.choice(["do { %s } while (0)", "do {%s} while(0)", "do\t{ %s }  while  (0)"]) % s

    out = []
    for i in range(n):
        k = i % 9
        a, b, c = (rnd.choice(atoms) for _ in range(3))
        if k == 0:
            s = wrap(a) + ";"
        elif k == 1:
            s = wrap(a) + "; " + wrap(b) + ";"
        elif k == 2:
            s = wrap(a + " " + wrap(b) + ";") + ";"
        elif k == 3:
            s = a + " " + wrap(b) + "; " + c
        elif k == 4:
            s = "{ " + wrap(wrap(wrap(a) + ";") + "; " + b) + "; }"
        elif k == 5:
            s = a + " " + b  # nothing to strip
        elif k == 6:
            s = "if (e)" + wrap(a) + "; else " + wrap(b) + ";"          # glued to the closing parenthesis of the head
        elif k == 7:
            s = "for (i = 0; i < 2; i++)" + wrap(a) + "; " + wrap(b) + ";"
        else:
            out.append("insn(T%d, {%s;%s;})" % (i, wrap(a), wrap(b)))      # directly behind the opening brace / a semicolon
            continue
        out.append("insn(T%d, { %s })" % (i, s))
    return out


def gen_defs(rnd, macros, n):
    """generated instruction definitions: invocations of bundled macros (nested, as arguments, glued to the
    closing parenthesis of a statement head, behind a label, at the start of the body)"""
    fn = sorted(m for m, v in macros.items() if v["fn"] and m[0] == "f" and len(v["params"]) <= 4 and "#" not in v["body"])
    small = [m for m in fn if len(macros[m]["body"]) <= 25]     # nested invocations: small bodies (argument pre-expansion is repeated per use)
    wrapped = [m for m in fn if macros[m]["body"][:2] == ["do", "{"]]
    args = ["RsV", "RtV", "RdV", "riV", "(RsV+1)", "EA", "PuV", "RxV", "(7)"]

    def inv(depth, pool):
        m = rnd.choice(pool)
        a = [inv(depth - 1, small) if depth > 0 and rnd.random() < 0.25 else rnd.choice(args) for _ in macros[m]["params"]]
        return "%s(%s)" % (m, ",".join(a))

    forms = ["{ %s; }", "{ if (RsV)%s; }", "{ if (RsV) %s; else %s; }", "{%s;%s; }", "{ for (i = 0; i < 2; i++)%s; }", "{ RdV = 1; %s; %s; }",
             "{ if (PuV) { %s; } %s; }", "{ %s; {%s;} }"]
    out = []
    for i in range(n):
        f = forms[i % len(forms)]
        k = f.count("%s")
        pool = wrapped if wrapped and i % 2 == 0 else fn
        out.append("DEF_SHORTCODE(GEN_%d, %s)" % (i, f % tuple(inv(1, pool) for _ in range(k))))
    return out


class HFile:
    """a generated macro header: physical text + the logical lines the specification sees"""

    def __init__(self, vec):
        self.vec, self.text, self.items = vec, [], []

    def line(self, d, phys, n="", logical=None):
        self.text.extend(phys)
        toks = cpptok.tokens(logical if logical is not None else " ".join(phys)) if d == "text" else []
        self.items.append({"d": d, "n": n, "toks": toks})


def gen_define(rnd, f, tag, shape=None):
    nm = "fM%d" % rnd.randint(0, 9)
    params = rnd.choice(["", "(X)", "(X, Y)"])
    body = ["(%s_%d" % (tag, rnd.randint(0, 999)), "+ X" if "X" in params else "+ 1", "- Y)" if "Y" in params else "- 2)"]
    shape = shape or rnd.choice(["one", "one", "cont", "cont-trail", "cont3"])
    head = "#define %s%s" % (nm, params)
    if shape == "one":
        f.line("text", ["%s %s" % (head, " ".join(body))])
    elif shape == "cont":
        f.line("text", [head + " \\", "    " + " ".join(body)], logical=head + " " + " ".join(body))
    elif shape == "cont-trail":        # blanks behind the backslash (tolerated by the clean-up and by gcc)
        f.line("text", [head + " \\  ", "    " + " ".join(body)], logical=head + " " + " ".join(body))
    elif shape == "cont3":
        f.line("text", [head + " \\", "    " + body[0] + " \\", "        " + body[1] + " \\", "    " + body[2]], logical=head + " " + " ".join(body))
    elif shape == "cont-col0":         # the continuation line starts in column 0 (the splice must not glue two tokens)
        f.line("text", [head + " (a_1 \\", "b_2 " + body[1] + " " + body[2]], logical=head + " (a_1 b_2 " + body[1] + " " + body[2])
    elif shape == "cont-star":         # the continuation line starts with the multiplication sign
        f.line("text", [head + " (X \\", "    * 3)"], logical=head + " (X * 3)")


def gen_cleanset(rnd, i, special=None):
    files = {}
    for key, vec in (("inc", False), ("h", True if False else False), ("mmvec", True)):
        f = HFile(vec)
        if rnd.random() < 0.7:
            f.line("comment", ["// Copyright (c) generated %d" % i, "//"])
        if rnd.random() < 0.5:
            f.line("comment", ["/*", " * a block comment", " * over several lines", " */"])
        guard = key != "inc" or rnd.random() < 0.3
        if guard:
            g = "GEN_%s_%d_H" % (key.upper(), i)
            f.line("ifndef", ["#ifndef " + g], n=g)
            f.line("text", ["#define " + g])
            f.line("blank", [""])
            for inc in range(rnd.randint(0, 2)):
                f.line("include", ['#include "x%d.h"' % inc])
        for j in range(rnd.randint(3, 9)):
            k = rnd.random()
            if k < 0.35:
                gen_define(rnd, f, "top")
            elif k < 0.45:
                f.line("blank", [""])
            elif k < 0.55:
                f.line("comment", [rnd.choice(["// note %d" % j, "/* note %d */" % j, "   // indented note"])])
            elif k < 0.85:
                name = "QEMU_GENERATE" if k < 0.75 else "CONFIG_USER_ONLY"
                f.line("ifdef", ["#ifdef " + name], n=name)
                for _ in range(rnd.randint(1, 2)):
                    gen_define(rnd, f, "then")
                if rnd.random() < 0.6:
                    f.line("else", ["#else"])
                    for _ in range(rnd.randint(1, 2)):
                        gen_define(rnd, f, "else")
                f.line("endif", ["#endif"])
            elif k < 0.93:
                f.line("ifdef", ["#ifdef FIXME"], n="FIXME")
                gen_define(rnd, f, "fixme")
                f.line("else", ["#else"])
                gen_define(rnd, f, "nofixme")
                f.line("endif", ["#endif"])
            else:
                f.line("ifndef", ["#ifndef QEMU_GENERATE"], n="QEMU_GENERATE")
                gen_define(rnd, f, "noqemu")
                f.line("endif", ["#endif"])
        if special and key == "h":
            gen_define(rnd, f, "special", special)
        if guard:
            f.line("endif", ["#endif"])
        files[key] = f
    return files


def gen_patchsets(rnd, n):
    names = ["fA", "fB", "fC", "fD", "gE"]
    out = []
    for i in range(n):
        macros = []
        for j in range(rnd.randint(2, 7)):
            nm = rnd.choice(names)
            macros.append("#define %s%s body_%d_%d" % (nm, rnd.choice(["", "(X)", "(X, Y)"]), i, j))
        plines = []
        for j in range(rnd.randint(0, 4)):
            nm = rnd.choice(names + ["uOnly1", "uOnly2"])
            body = "patched_%d_%d" % (i, j)
            if rnd.random() < 0.3:
                plines.append("#define %s(X) \\\n    %s \\\n    + X" % (nm, body))
            else:
                plines.append("#define %s %s" % (nm, body))
            if rnd.random() < 0.3:
                plines.append("// a comment")
            if rnd.random() < 0.2:
                plines.append("")
        out.append({"macros": macros, "patches": "\n".join(plines) + "\n"})
    return out


def deflist(lines):
    out = []
    for l in lines:
        pd = cpptok.parse_define(l)
        out.append({"name": pd[0] if pd else "?", "line": l})
    return out


def patch_deflist(text):
    import re
    cont = re.sub(r"\\\s*\n", "", text)   # line continuations joined (C translation phase 2)
    out = []
    for l in cont.split("\n"):
        pd = cpptok.parse_define(l) if l.startswith("#define") else None
        if pd:
            out.append({"name": pd[0], "line": l})
    return out


def run(ctx):
    rnd = random.Random(ctx.seed)
    scratch = scratch_copy()
    try:
        strip_texts = gen_strip_bodies(rnd, 120 if ctx.tier == "quick" else 1500)
        patchsets = gen_patchsets(rnd, 60 if ctx.tier == "quick" else 600)
        pre = os.path.join(impl.REPO, "Resources/Hexagon/Preprocessor")
        macros = {}
        for line in open(os.path.join(pre, "macros_patched.h")).read().split("\n"):
            pd = cpptok.parse_define(line)
            if pd:
                macros[pd[0]] = pd[1]     # a later definition of the same name replaces the earlier one
        gen_defs_lines = gen_defs(rnd, macros, 120 if ctx.tier == "quick" else 1600)
        import time
        t0 = time.time()
        ncl = 60 if ctx.tier == "quick" else 600
        cleansets = [gen_cleanset(rnd, i) for i in range(ncl)]
        cleansets += [gen_cleanset(rnd, ncl + i, special=sp) for i, sp in enumerate(["cont-col0", "cont-star"] * 2)]
        out, err = drive({"strip": strip_texts, "patchsets": patchsets, "regenerate": True, "extra_shortcode": gen_defs_lines,
                          "cleansets": [{k: "\n".join(f.text) + "\n" for k, f in cs.items()} for cs in cleansets]}, scratch)
        if out is None:
            ctx.violation("the preprocessing functions cannot be driven: " + err, {"kind": "driver"})
            return ctx.finish("model_checking", {"states": 1, "transitions": 1, "traces_validated_against_impl": 0, "samples": ["driver failed"]})
        t_drive = time.time() - t0
        items = []
        # (1) bundled data: every definition expanded by the specification under the bundled patched table
        defs = [l.rstrip("\n") for l in open(os.path.join(pre, "shortcode.h")) if l.startswith("DEF_SHORTCODE(")]
        resolved = {}
        for l in open(os.path.join(pre, "shortcode_resolved.h")):
            r = None
            try:
                r = corpus.split_line(l)
            except ValueError:
                ctx.violation("bundled resolved file has a malformed line: %r" % l[:80], {"kind": "bundled-line"})
            if r:
                resolved[r[0]] = l.rstrip("\n")
        names = []
        for dl in defs:
            nm = dl[len("DEF_SHORTCODE("):].split(",", 1)[0].strip()
            names.append(nm)
            if nm not in resolved:
                ctx.violation("instruction %s has a definition but no resolved line" % nm, {"kind": "name-lost", "name": nm})
        if sorted(names) != sorted(resolved):
            extra = sorted(set(resolved) - set(names))[:5]
            if extra:
                ctx.violation("resolved lines without definition: %s" % extra, {"kind": "name-extra", "names": extra})
        sel = list(zip(names, defs))
        if ctx.tier == "quick":
            rnd.shuffle(sel)
            # the expansion in TLC is quadratic in the line length: the 5% longest lines (HVX multiplies, > 800 tokens) are left to thorough
            sel = [x for x in sel if x[0] in resolved and len(resolved[x[0]]) < 6000]
            keep = [x for x in sel if "##" in x[1]][:10] + sel[:220]
            sel = keep
        for nm, dl in sel:
            if nm in resolved:
                items.append({"id": "res-" + nm, "kind": "resolve", "src": cpptok.tokens(dl), "res": cpptok.tokens(resolved[nm])})
        # (2) do-while(0) stripping on generated bodies
        for t, r in zip(strip_texts, out["strip"]):
            if not r["ok"]:
                ctx.violation("replace_do_while_0 raised %s on %r" % (r["exc"], t), {"kind": "strip-raise", "text": t})
                continue
            items.append({"id": "strip-" + t[5:9].strip(",( "), "kind": "strip", "src": cpptok.tokens(t), "res": cpptok.tokens(r["res"]), "text": t})
        # (3) patch rule: bundled files and generated sets
        if "cleaned" in out:
            patches_text = open(os.path.join(pre, "patches_macros.h")).read()
            items.append({"id": "patch-bundled", "kind": "patch", "defs": deflist(out["cleaned"]), "patches": patch_deflist(patches_text),
                          "res": out["patched"]})
            bundled_patched = open(os.path.join(pre, "macros_patched.h")).read().split("\n")
            if [l for l in bundled_patched if l.strip()] != [l for l in out["patched"] if l.strip()]:
                ctx.violation("bundled macros_patched.h is not what cleanup + patch produce from the bundled sources", {"kind": "patched-file"})
        else:
            ctx.violation("cleanup_macros / patch_macros raised: %s" % out.get("cleaned_exc"), {"kind": "cleanup"})
        for i, (ps, r) in enumerate(zip(patchsets, out["patchsets"])):
            if not r["ok"]:
                ctx.violation("patch_macros raised %s on a generated set" % r["exc"], {"kind": "patch-raise", "set": ps})
                continue
            items.append({"id": "patch-gen%d" % i, "kind": "patch", "defs": deflist(ps["macros"]), "patches": patch_deflist(ps["patches"]),
                          "res": r["res"], "set": ps})
        # (3b) generated macro header files through cleanup_macros
        for i, (cs, r) in enumerate(zip(cleansets, out.get("cleansets", []))):
            text = {k: "\n".join(f.text) for k, f in cs.items()}
            if not r["ok"]:
                ctx.violation("cleanup_macros raised %s on generated header files" % r["exc"], {"kind": "clean-raise", "files": text})
                continue
            res = [t for t in (cpptok.tokens(l) for l in r["res"]) if t]
            items.append({"id": "clean-%d" % i, "kind": "clean", "res": res, "text": json.dumps(text),
                          "files": [{"vec": cs[k].vec, "items": cs[k].items} for k in ("inc", "h", "mmvec")]})
        # (4) regeneration reproduces the bundled resolved file (modulo #line directives)
        if "regen" in out:
            def body_lines(t):
                return [l.rstrip() for l in t.split("\n") if l.strip() and not l.startswith("#")]
            a = body_lines(out["regen"]["resolved"])
            # the generated definitions: each must come out, under its name, as standard preprocessing + stripping gives it
            gen_res = {}
            for l in a:
                if l.startswith("insn(GEN_"):
                    gen_res[l[len("insn("):].split(",", 1)[0]] = l
            a = [l for l in a if not l.startswith("insn(GEN_")]
            for gi, dl in enumerate(gen_defs_lines):
                nm = "GEN_%d" % gi
                if nm not in gen_res:
                    ctx.violation("generated definition %s has no resolved line: %s" % (nm, dl), {"kind": "gen-lost", "def": dl})
                else:
                    items.append({"id": "gen-" + nm, "kind": "resolve", "src": cpptok.tokens(dl), "res": cpptok.tokens(gen_res[nm]), "text": dl})
            b = body_lines(open(os.path.join(pre, "shortcode_resolved.h")).read())
            if a != b:
                k = next((i for i in range(min(len(a), len(b))) if a[i] != b[i]), min(len(a), len(b)))
                ctx.violation("regenerating from the bundled sources does not reproduce the bundled resolved file (first difference at line %d: %r vs %r)" % (
                    k, (a[k] if k < len(a) else "")[:100], (b[k] if k < len(b) else "")[:100]), {"kind": "regen", "line": k})
        else:
            ctx.violation("run_preprocess_steps raised: %s" % out.get("regen_exc"), {"kind": "regen-raise"})
        tf = os.path.join(scratch, "tv.json")
        slim = [{k: v for k, v in it.items() if k not in ("text", "set")} for it in items]
        json.dump({"macros": macros, "items": slim}, open(tf, "w"))
        t1 = time.time()
        v = tlc.run("Cpp.tla", "Cpp.cfg", env={"TV_FILE": tf}, tags=("CPREPORT",), timeout=6000)
        t_tlc = time.time() - t1
        if v.states < 2 * len(items):
            raise tlc.TLCError("Cpp.tla did not consume all items:\n" + v.out[-3000:])
        byid = {it["id"]: it for it in items}
        seen = set()
        for rep in v.reports["CPREPORT"]:
            rid = rep.get("id")
            if rid is None or rid in seen:
                continue
            seen.add(rid)
            it = byid.get(rid, {})
            f = None
            import re as _re
            for kf in ctx.findings_for("cpp"):
                if kf.get("kind_of_item") != it.get("kind"):
                    continue
                # keyed by the failing input (regular expression on the generated text) AND by the failure itself: the listed
                # finding only loses a token boundary, so expected and observed line must have the same concatenation
                v_ = rep["v"]
                same_glue = isinstance(v_.get("exp"), list) and isinstance(v_.get("got"), list) and "".join(v_["exp"]) == "".join(v_["got"])
                if kf.get("text_regex") and _re.search(kf["text_regex"], json.loads(it["text"])["h"] if it.get("kind") == "clean" else (it.get("text") or "")) and same_glue:
                    f = kf
            if f:
                ctx.note_known(f, (it.get("text") or rid)[:100])
            else:
                ctx.violation("%s: %s (expected .. %s .., got .. %s ..)" % (rid, rep["v"].get("why"), " ".join(rep["v"].get("exp", [])[:12]) if isinstance(rep["v"].get("exp"), list) else "",
                                                                         " ".join(rep["v"].get("got", [])[:12]) if isinstance(rep["v"].get("got"), list) else ""),
                              {"kind": "cpp", "id": rid, "verdict": rep["v"], "item": {k: it.get(k) for k in ("text", "set", "kind")}})
        cov = {
            "states": v.states, "transitions": v.transitions, "traces_validated_against_impl": len(items) + 2,
            "evaluations": len(items), "distinct_nontrivial": len(items),
            "rule": "items = %d bundled definitions expanded by Cpp.tla (Prosser's algorithm, hide sets, ##) under the bundled patched macro table and "
                    "compared token-wise with the bundled resolved line after do-while(0) stripping; %d generated definitions (bundled macros nested, "
                    "glued to statement heads) through the real pipeline in the scratch copy; %d generated bodies with nested / sequential "
                    "wrappers and look-alike identifiers through replace_do_while_0; the bundled and %d generated macro/patch sets through "
                    "patch_macros; one regeneration of the whole pipeline in a scratch copy compared with the bundled files" % (
                        sum(1 for i in items if i["id"].startswith("res-")), len(gen_defs_lines), len(strip_texts), len(patchsets)),
            "samples": [{"id": items[0]["id"], "src": " ".join(items[0]["src"])[:200]}], "macro_table_size": len(macros), "notes": ["real preprocessing functions %.1fs, TLC %.1fs" % (t_drive, t_tlc)], "exhaustive": ctx.tier == "thorough",
        }
        return ctx.finish("model_checking", cov, ["'standard C preprocessing' = the subset the bundled macro files use (no #, no variadic macros)",
                                                  "the pp-tokeniser (harness/front/cpptok.py) is a projection function"])
    finally:
        shutil.rmtree(scratch, ignore_errors=True)


if __name__ == "__main__":
    checklib.main("C20", run)
