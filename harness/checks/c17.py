"""C17 -- the grammar parses behaviours with C structure, deterministically."""
import json
import os
import random
import shutil
import subprocess
import tempfile

from .. import checklib, tlc, impl, corpus
from ..front import cparse, larkproj, cast

IDENTS = """RsV RtV RuV RvV RwV RdV ReV RxV RyV RzV RssV RttV RuuV RvvV RddV RxxV RyyV PsV PtV PuV PvV PdV PeV PxV CsV CdV CssV CddV
MuV MtV NsN NtN RsN RtN PuN PvN PsN PtN VuV VvV VdV VxV VuuV VddV QsV QvV QdV QxV P0 P1 P2 P3 P0_NEW P1_NEW P3_NEW R0 R31 R3 R13 C1 C31 M0 M1 V0 V31
Q3 G0 S1 siV SiV uiV UiV riV RiV miV niV EA i j k HEX_REG_ALIAS_USR HEX_REG_ALIAS_LR HEX_REG_ALIAS_PC HEX_REG_ALIAS_SP
HEX_REG_ALIAS_P3_0 HEX_REG_ALIAS_LR_NEW HEX_REG_ALIAS_UPCYCLE
Rs RsVx RsV2 xRsV RsVV RV R sV siVx xiV tiV ii P P4 P9 R4 R40 R32 C9 ZsV RqV RsW RsX Rss RssN RddN PddV OsV OsN NsV N1 tmp tmpV __TMP a b x0 x1 _x EAx EA2 slot shamt HEX_REG_ALIAS HEX_REG_FIELD_USR_OVF""".split()


def tla_expr(e):
    """generated expression tree (Grammar.tla) -> CSem shape (mechanical renaming)"""
    return larkproj.canon(e)


def tla_stmt(s):
    if s["k"] == "set":
        return cast.expr(cast.assign(cast.var("x"), cast.num(int(s["n"]))))
    e = s["e"]
    return cast.if_(cast.var(s["c"]), [tla_stmt(s["t"])], None if e["k"] == "none" else [tla_stmt(e)])


def amp_variants(toks):
    """texts that differ only in the blanks around & and && tokens"""
    out = []
    if not any(t in ("&", "&&") for t in toks):
        return out
    for mode in ("tight", "left", "right"):
        s = ""
        for i, t in enumerate(toks):
            if t in ("&", "&&"):
                if mode == "tight":
                    s = s.rstrip(" ") + t
                elif mode == "left":
                    s = s.rstrip(" ") + t + " "
                else:
                    s = s + t
            else:
                s += t + " "
        out.append((mode, s.strip()))
    return out


def run_lark(items, mode, hashseed, d, tag):
    inf, outf = os.path.join(d, "in_%s.json" % tag), os.path.join(d, "out_%s.json" % tag)
    json.dump({"mode": mode, "procs": 16, "items": items}, open(inf, "w"))
    env = dict(os.environ, PYTHONPATH=impl.REPO, PYTHONHASHSEED=str(hashseed), PYTHONDONTWRITEBYTECODE="1")
    p = subprocess.run([impl.PY, os.path.join(os.path.dirname(os.path.dirname(__file__)), "lark_driver.py"), inf, outf, checklib.ROOT],
                       cwd=impl.REPO, env=env, stdout=subprocess.PIPE, stderr=subprocess.PIPE, timeout=3000)
    if p.returncode != 0:
        raise RuntimeError("lark driver failed: " + p.stderr.decode()[-500:])
    return {r["id"]: r for r in json.load(open(outf))["results"]}


def run(ctx):
    rnd = random.Random(ctx.seed)
    d = tempfile.mkdtemp(prefix="verif_c17_")
    try:
        gen = os.path.join(d, "gen.json")
        g = tlc.run("Grammar.tla", "Grammar_gen.cfg", env={"GEN_OUT": gen, "TV_FILE": "/dev/null"}, workers=1, timeout=900)
        if not os.path.exists(gen):
            raise tlc.TLCError("Grammar generator failed (bijection violated inside the specification?):\n" + g.out[-2000:])
        G = json.load(open(gen))
        items, exp = [], {}
        for e in G["exprs"]:
            text = "{ r = %s; }" % " ".join(e["toks"])
            items.append({"id": e["id"], "text": text})
            exp[e["id"]] = larkproj.canon([cast.expr(cast.assign(cast.var("r"), tla_expr(e["ast"])))])
            for mode, s in amp_variants(e["toks"]):
                vid = "%s-%s" % (e["id"], mode)
                items.append({"id": vid, "text": "{ r = %s; }" % s})
                exp[vid] = exp[e["id"]]
        for s in G["stmts"]:
            items.append({"id": s["id"], "text": "{ %s }" % " ".join(s["toks"])})
            exp[s["id"]] = larkproj.canon([tla_stmt(s["ast"])])
        # statement expressions versus compound statements
        for i, (text, ast) in enumerate([
            ("{ r = ({ x = 1; x; }); }", [cast.expr(cast.assign(cast.var("r"), cast.stmtexpr([cast.expr(cast.assign(cast.var("x"), cast.num(1)))], cast.var("x"))))]),
            ("{ { x = 1; } r = 2; }", [cast.expr(cast.assign(cast.var("x"), cast.num(1))), cast.expr(cast.assign(cast.var("r"), cast.num(2)))]),
            ("{ if (a) { x = 1; r = 2; } }", [cast.if_(cast.var("a"), [cast.expr(cast.assign(cast.var("x"), cast.num(1))), cast.expr(cast.assign(cast.var("r"), cast.num(2)))])]),
        ]):
            items.append({"id": "se%d" % i, "text": text})
            exp["se%d" % i] = larkproj.canon(ast)
        # a cast whose operand starts with a unary operator, behind a binary operator ("(T) - b" must stay a cast)
        k = 0
        for o1 in ("+", "-", "*", "&", "<<", "==", "|"):
            for u in ("-", "+", "~", "!"):
                for ty in ("int32_t", "uint8_t"):
                    for text in ("{ r = a %s (%s) %sb; }" % (o1, ty, u), "{ r = (%s) %sb %s a; }" % (ty, u, o1)):
                        cid = "castmix%d" % k
                        k += 1
                        try:
                            exp[cid] = larkproj.canon(cparse.parse_body(text))
                        except cparse.ParseError:
                            continue
                        items.append({"id": cid, "text": text})
        # calls without arguments (listed finding KF-D9b-parse)
        for j, text in enumerate(("{ foo(); r = 1; }", "{ r = bar() + 1; }")):
            try:
                exp["call0-%d" % j] = larkproj.canon(cparse.parse_body(text))
                items.append({"id": "call0-%d" % j, "text": text})
            except cparse.ParseError:
                pass
        # classification of operand-like identifiers (documented token classes, independent implementation)
        for i, name in enumerate(IDENTS):
            items.append({"id": "id-%s" % name, "text": "{ r = %s; }" % name})
            exp["id-%s" % name] = larkproj.canon([cast.expr(cast.assign(cast.var("r"), cparse.classify_identifier(name)))])
        # corpus behaviours against the independent parser
        beh = corpus.load_behaviors()
        names = sorted(beh)
        rnd.shuffle(names)
        ncorp = 120 if ctx.tier == "quick" else len(names)
        oracle_reject = set()
        for n in names[:ncorp]:
            for pi, b in enumerate(beh[n]):
                cid = "corpus-%s#%d" % (n, pi)
                items.append({"id": cid, "text": b})
                try:
                    exp[cid] = larkproj.canon(cparse.parse_body(b))
                except cparse.ParseError:
                    oracle_reject.add(cid)
        r0 = run_lark(items, "reuse", 0, d, "a")
        events = []
        nrej_both = 0
        for it in items:
            r = r0[it["id"]]
            if it["id"] in oracle_reject:
                if r["ok"]:
                    events.append({"id": it["id"], "ok": True, "exp": {"k": "oracle-rejects"}, "obs": {"k": "accepted"}})
                else:
                    nrej_both += 1
                continue
            if r["ok"] and not r.get("proj"):
                events.append({"id": it["id"], "ok": True, "exp": exp[it["id"]], "obs": {"k": "unprojectable", "why": r["err"][:80]}})
            else:
                events.append({"id": it["id"], "ok": bool(r["ok"]), "exp": exp[it["id"]], "obs": r.get("ast", {"k": "rejected", "why": r.get("err", "")})})
        # determinism: other hash seeds, fresh parser objects, shuffled order
        det_items = [it for it in items if not it["id"].startswith("corpus-")][::3] + [it for it in items if it["id"].startswith("corpus-")][:40]
        for seed, mode in ((1, "fresh"), (2, "reuse"), (3, "fresh")) if ctx.tier == "thorough" else ((1, "fresh"), (2, "reuse")):
            sh = list(det_items)
            rnd.shuffle(sh)
            rk = run_lark(sh, mode, seed, d, "d%d" % seed)
            for it in det_items:
                a, b = r0[it["id"]], rk[it["id"]]
                events.append({"id": "det%d-%s" % (seed, it["id"]), "ok": True,
                               "exp": {"ok": a["ok"], "h": a.get("pretty_hash", ""), "ast": a.get("ast", {})},
                               "obs": {"ok": b["ok"], "h": b.get("pretty_hash", ""), "ast": b.get("ast", {})}})
        tf = os.path.join(d, "tv.json")
        json.dump({"events": events}, open(tf, "w"))
        v = tlc.run("Grammar.tla", "Grammar.cfg", env={"TV_FILE": tf, "GEN_OUT": "/dev/null"}, tags=("GRREPORT",), timeout=3000)
        if v.states < 2 * len(events):
            raise tlc.TLCError("Grammar.tla did not consume all events:\n" + v.out[-3000:])
        texts = {it["id"]: it["text"] for it in items}
        seen = set()
        for rep in v.reports["GRREPORT"]:
            rid = rep.get("id")
            if rid is None or rid in seen:
                continue
            seen.add(rid)
            base = rid.split("-", 1)[1] if rid.startswith("det") else rid
            text = texts.get(base, "")
            f = None
            for kf in ctx.findings_for("parse"):
                import re as _re
                if kf.get("text_regex") and _re.search(kf["text_regex"], text):
                    f = kf
            if f:
                ctx.note_known(f, text[:100])
            else:
                what = "parse differs between processes / hash seeds / parser objects" if rid.startswith("det") else rep["v"]
                ctx.violation("%s: %s" % (what, text[:200]), {"kind": "grammar", "id": rid, "text": text, "verdict": rep["v"]})
        cov = {
            "states": v.states + g.states, "transitions": v.transitions + g.transitions,
            "traces_validated_against_impl": len(events), "evaluations": len(events), "distinct_nontrivial": len(items),
            "rule": "texts = minimal-parenthesis unparse (Grammar.tla, bijection checked by TLC) of all 18 x 18 ordered binary operator pairs in both "
                    "nestings, unary x binary, cast/unary/postfix forms, ?: and assignment nestings, all if/else nestings of depth <= 2 (incl. "
                    "dangling else), blank variants around & / &&, %d operand-like identifiers, statement-expression forms, %d corpus behaviours "
                    "compared with the independent parser; determinism under 2-3 further hash seeds with fresh / reused parser objects" % (len(IDENTS), ncorp),
            "samples": [items[5], items[-1]["id"]], "rejected_by_both_parsers": nrej_both, "exhaustive": False,
        }
        return ctx.finish("model_checking", cov, ["the projection of Lark trees (rule name -> constructor) and the independent parser are trusted"])
    finally:
        shutil.rmtree(d, ignore_errors=True)


if __name__ == "__main__":
    checklib.main("C17", run)
