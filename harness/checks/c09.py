"""C09 -- compile-time evaluation agrees with run-time evaluation."""
from .. import checklib, tvprop
from ..front import cast


def run(ctx):
    def prepare(progs):
        if ctx.tier == "quick":
            # literal and folding programs are enumerations; the quick tier takes every 3rd of those two families
            keep = []
            for i, p in enumerate(progs):
                if p["tags"][0] in ("literal", "fold") and i % 3 != 0:
                    continue
                keep.append(p)
            return keep
        return progs

    def post(ctx, res, progs):
        # (iii) a division of literals by literal zero must be rejected, not folded or emitted
        for pid, (p, case) in res.cases.items():
            if p["tags"][:2] == ["fold", "/"]:
                e = p["body"][0]["init"]
                if e["b"]["k"] == "num" and cast.val_of(e["b"]["v"]) == 0:
                    ctx.violation("division of literals by zero is compiled instead of rejected: %s" % p["text"], {"kind": "divzero", "program": p})

    rc, _ = tvprop.run_generated(
        ctx, "C09", "Gen_C09.tla",
        "programs = TLC enumeration of Gen_C09: 25 values x 4 suffixes x dec/hex literals in 7 type-revealing contexts, 11 x 11 literal pairs x 10 "
        "foldable operators, constant-condition ?: with the dead arm sharing a register/local/call/statement-expression/immediate/load with live "
        "code before / after / in the live arm, sizeof of 10 operand kinds",
        must_accept=False, post=post, prepare=prepare)
    return rc


if __name__ == "__main__":
    checklib.main("C09", run)
