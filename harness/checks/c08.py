"""C08 -- sub-routine calls follow the C calling convention and isolate the callee."""
import copy
import json

from .. import checklib, tvcheck
from ..tvprop import ASSUME


def run(ctx):
    out, g = tvcheck.generate("Gen_C08.tla", ctx.seed, ctx.tier)
    progs = out["programs"]
    if ctx.replay:
        rp = json.load(open(ctx.replay))
        pid = rp.get("program", {}).get("id", "").split("@")[0]
        progs = [p for p in progs if p["id"] == pid] or progs[:3]
    il_subs, c_subs, reg, sub_errors, _ = tvcheck.prepare_subs(out["subs"])
    for n, e in sub_errors.items():
        ctx.violation("sub-routine %s cannot be registered or read: %s" % (n, str(e)[:200]), {"kind": "sub", "name": n})
    for p in progs:
        p["subs"] = reg
    # (1) long-lived compilers: temporaries are numbered from wherever the worker's counter stands
    long_progs = []
    for p in progs:
        q = copy.deepcopy(p)
        q["id"] = p["id"] + "@long"
        long_progs.append(q)
    ra = tvcheck.run_batch(ctx, long_progs, il_subs=il_subs, c_subs=c_subs, mode="pool")
    ca = tvcheck.classify_tv(ctx, ra)
    # (2) a fresh compiler per program: caller and callees all number their temporaries from 0
    fresh_sel = [p for p in progs if p["tags"][0] in ("multicall", "livetmp", "nameclash", "inloop", "incond", "argcall", "twice", "onecall")]
    if ctx.tier == "quick":
        fresh_sel = fresh_sel[:48]
    fresh_progs = []
    for p in fresh_sel:
        q = copy.deepcopy(p)
        q["id"] = p["id"] + "@fresh"
        fresh_progs.append(q)
    rb = tvcheck.run_batch(ctx, fresh_progs, il_subs=il_subs, c_subs=c_subs, mode="fresh")
    cb = tvcheck.classify_tv(ctx, rb)
    for res in (ra, rb):
        for u in res.unreadable:
            ctx.violation("emitted text unreadable: %s" % (u,), {"kind": "unreadable", "id": u[0]})
        for x in res.sreports:
            if x.get("sort"):
                p, case = res.cases[x["id"]]
                ctx.violation("ill-sorted caller/callee combination [%s]: %s -- %s" % (x["id"], x["sort"], p["text"][:160]),
                              {"kind": "static", "program": p, "report": x})
    cov = {
        "programs": ra.programs + rb.programs, "accepted": ra.accepted + rb.accepted, "rejected": len(ra.rejected) + len(rb.rejected),
        "disagreements_checked": ca["mismatch"] + ca["deviation"] + cb["mismatch"] + cb["deviation"],
        "states": ra.states + rb.states, "transitions": ra.transitions + rb.transitions,
        "traces_validated_against_impl": 2 * (ra.accepted + rb.accepted), "evaluations": (ra.states + rb.states) // 2,
        "distinct_nontrivial": ra.accepted + rb.accepted,
        "rule": "programs = TLC enumeration of Gen_C08: 15 generated sub-routines (identity on 8 types, multiple / early returns, locals, loop, nested "
                "calls, narrowing return, internal postfix) registered through add_sub_routine, 64 argument/return type pairs, 11 single calls, seeded "
                "expressions with 2..4 calls, name clash, live caller temporaries, calls in loops / conditions / arguments; every program on "
                "long-lived compilers and a subset on a fresh compiler per program; callee bodies are inlined by term substitution in the flat namespace",
        "verdict_counts": {"long": ca, "fresh": cb},
        "samples": tvcheck.samples_of(ra, 2) + tvcheck.samples_of(rb, 1), "exhaustive": False,
    }
    return ctx.finish("translation_validation", cov, ASSUME + ["by-reference register operands of sub-routines are bound by spelling (as the compiler does); a call with a different register is not generated"])


if __name__ == "__main__":
    checklib.main("C08", run)
