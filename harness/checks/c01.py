"""C01 -- bundled behaviours are translated faithfully end to end; rejected, never approximated."""
import json
import os
import shutil
import tempfile

from .. import checklib, tvcheck, tv, tlc, corpus_tv
from ..front import cast, emitted

ASSUME = [
    "A1 register banks with admissible plugin models M_exec / M_build for x-operand reads",
    "A2 initial states, A3 operand types, A4 little-endian memory, A5 jump locals, A6 dialect primitives, A7 bit-field macros",
    "floating point behaviours are not interpreted (counted as float_skipped)",
    "compound parts are validated independently, each from arbitrary initial states",
]


def fingerprint(res_by_fmt):
    """fingerprint of everything the compiler returned for one instruction (both layouts): emitted texts without comment
    lines and with the history dependent temporary numbers renamed in order of appearance, attribute lists, flags"""
    import hashlib
    import re
    parts = []
    for f in tv.FORMATS:
        r = res_by_fmt[f]
        if not r.get("ok"):
            parts.append("REJ:%s/%s" % (r.get("exc"), r.get("inner")))
            continue
        names = {}

        def ren(m):
            return names.setdefault(m.group(0), "h_tmp#%d" % len(names))
        for t in r["rzil"]:
            t = "\n".join(l for l in t.split("\n") if not l.lstrip().startswith("//"))
            parts.append(re.sub(r"h_tmp\w*?\d+", ren, t))
        parts.append(json.dumps([r.get("meta"), r.get("needs_hi"), r.get("needs_pkt")], sort_keys=True))
    return hashlib.md5("\x00".join(parts).encode()).hexdigest()


BASELINE = os.path.join(os.path.dirname(os.path.dirname(os.path.dirname(os.path.abspath(__file__)))), "baseline", "c01_fingerprints.json")


def build(cp, names, ctx, pre=None):
    if pre is not None:
        comp, subdefs = {n: pre[0][n] for n in names}, pre[1]
    else:
        comp, subdefs = corpus_tv.compile_insns(cp, names)
    il_subs, sub_events, sub_errs = corpus_tv.il_subs_table(subdefs)
    cases = []
    srcs = []
    info = {"accepted_parts": 0, "rejected_insns": 0, "unparsed_by_oracle": 0, "float_skipped": 0, "noped": 0}
    meta = {}
    for nm in names:
        asts = cp.ast[nm]
        r0 = comp[nm][tv.FORMATS[0]]
        r1 = comp[nm][tv.FORMATS[1]]
        for i, a in enumerate(asts):
            if a is not None:
                srcs.append({"id": "%s#%d" % (nm, i), "body": a})
        meta[nm] = {"ok": (r0["ok"], r1["ok"]), "exc": (r0.get("exc"), r0.get("inner"), r0.get("stage"))}
        if r0["ok"] != r1["ok"]:
            ctx.violation("instruction %s accepted in one layout and rejected in the other" % nm,
                          {"kind": "layout-acceptance", "name": nm, "res": [r0.get("exc"), r1.get("exc")]})
            continue
        if not r0["ok"]:
            info["rejected_insns"] += 1
            continue
        for i, a in enumerate(asts):
            pid = "%s#%d" % (nm, i)
            if a is None:
                # compiler accepted something the independent parser cannot read
                info["unparsed_by_oracle"] += 1
                ctx.notes.append("accepted but not parsed by the oracle parser: %s" % pid)
                continue
            body = a
            if nm in cp.noped:
                body = []
                info["noped"] += 1
            elif corpus_tv.uses_float(a):
                info["float_skipped"] += 1
                continue
            obs = []
            bad = None
            for f, r in ((tv.FORMATS[0], r0), (tv.FORMATS[1], r1)):
                try:
                    art = emitted.read_emitted(r["rzil"][i])
                except emitted.EmittedFormatError as e:
                    bad = (f, str(e))
                    break
                term = tv.annotate_build_order(art["term"], il_subs)
                tv.default_false_bnew(term)
                amb = ["bundle"] + (["hi"] if r["needs_hi"][i] else []) + (["pkt"] if r["needs_pkt"][i] else [])
                obs.append({"fmt": f, "term": term, "events": art["events"], "ambient": amb, "meta": r["meta"][i]})
            if bad:
                ctx.violation("emitted text of %s unreadable (%s): %s" % (pid, bad[0], bad[1]),
                              {"kind": "unreadable", "id": pid, "text": r["rzil"][i]})
                continue
            regs, imms = corpus_tv.resources_closure(a, cp.csubs)
            fam = "std"
            cases.append({
                "id": pid, "src": {"kind": "insn", "body": body, "params": [], "void": True, "ret": cast.T(False, 64)},
                "regs": regs, "imms": imms, "obs": obs, "cmpvars": [], "fam": fam, "gk": [],
                "nin": tvcheck.FAM_NIN[fam](ctx.tier), "tags": sorted(cp.classes(nm)), "text": cp.beh[nm][i],
                "attr_body": a, "noped": nm in cp.noped,
            })
            info["accepted_parts"] += 1
    # the bundled sub-routines themselves
    for sname, cs in cp.csubs.items():
        if sname not in il_subs:
            ctx.violation("bundled sub-routine %s: no readable definition (%s)" % (sname, sub_errs.get(sname)),
                          {"kind": "sub-unreadable", "name": sname})
            continue
        regs, imms = corpus_tv.resources_closure(cs["body"], cp.csubs)
        obs = [{"fmt": "DEF", "term": il_subs[sname]["body"], "events": sub_events[sname], "ambient": []}]
        cases.append({
            "id": "sub:" + sname,
            "src": {"kind": "sub", "body": cs["body"], "params": cs["params"], "void": cs["void"], "ret": cs["ret"]},
            "regs": regs, "imms": imms, "obs": obs, "cmpvars": [], "fam": "std", "gk": [],
            "nin": tvcheck.FAM_NIN["std"](ctx.tier) * 2, "tags": ["sub"], "text": cp.sub_src[sname]["code"],
            "attr_body": cs["body"], "noped": False,
        })
    return cases, srcs, il_subs, meta, info


def run_dialect(srcs, csubs, timeout=1800):
    d = tempfile.mkdtemp(prefix="verif_dl_")
    try:
        f = os.path.join(d, "dl.json")
        json.dump({"srcs": srcs, "csubs": csubs}, open(f, "w"))
        r = tlc.run("Dialect.tla", "Dialect.cfg", env={"TV_FILE": f}, timeout=timeout, tags=("DLREPORT",))
        if r.states < 2 * len(srcs) or r.error_text:
            raise tlc.TLCError("Dialect.tla did not run to completion:\n" + r.out[-3000:])
        return {x["id"]: x["ok"] for x in r.reports["DLREPORT"] if "id" in x}, r
    finally:
        shutil.rmtree(d, ignore_errors=True)


def run(ctx):
    cp = corpus_tv.Corpus()
    if ctx.replay:
        rp = json.load(open(ctx.replay))
        names = [rp["id"].split("#")[0]] if "#" in rp.get("id", "") else sorted(cp.beh)[:5]
    elif ctx.tier == "thorough":
        names = sorted(cp.beh)
    else:
        names = cp.sample(150, ctx.seed)
    pre = None
    changed = []
    if not ctx.replay:
        # every instruction is compiled on every run; the quick tier validates a stratified sample PLUS every instruction
        # whose output differs from the fingerprints recorded when the whole corpus was last validated (bin/mkbaseline)
        allnames = sorted(cp.beh)
        pre = corpus_tv.compile_insns(cp, allnames)
        fps = {n: fingerprint(pre[0][n]) for n in allnames}
        ctx.fingerprints = fps
        if ctx.tier == "quick":
            base = json.load(open(BASELINE)) if os.path.exists(BASELINE) else {}
            changed = [n for n in allnames if base.get("fingerprints", {}).get(n) != fps[n]]
            extra = changed if len(changed) <= 400 else changed[::max(1, len(changed) // 400)]
            names = sorted(set(names) | set(extra))
    cases, srcs, il_subs, meta, info = build(cp, names, ctx, pre)
    info["compiled"] = len(cp.beh)
    info["changed_since_baseline"] = len(changed)
    c_subs = {n: {k: v for k, v in s.items() if k != "kind"} for n, s in cp.csubs.items()}

    # acceptance: in the dialect => accepted
    inside, dr = run_dialect(srcs, c_subs)
    n_in = n_in_rej = 0
    for nm in names:
        ids = ["%s#%d" % (nm, i) for i, a in enumerate(cp.ast[nm]) if a is not None]
        if len(ids) != len(cp.ast[nm]):
            continue
        if all(inside.get(i) for i in ids):
            n_in += 1
            if not meta[nm]["ok"][0]:
                n_in_rej += 1
                f = None
                for kf in ctx.findings_for("input"):
                    if nm in kf.get("names", []):
                        f = kf
                if f:
                    ctx.note_known(f, nm)
                else:
                    ctx.violation("behaviour within the supported dialect is rejected (%s): %s %s" % (
                        meta[nm]["exc"], nm, cp.beh[nm][0][:160]), {"kind": "rejected-in-dialect", "id": nm + "#0"})

    # faithfulness
    res = tvcheck.TVRun()
    res.cases = {c["id"]: ({"id": c["id"], "text": c["text"], "tags": c["tags"]}, c) for c in cases}
    r, s = tv.run_tv(cases, il_subs, c_subs, ctx.devsets(), tvcheck.nb(ctx.tier), ctx.seed, timeout=7200)
    if r.states == 0 or (r.error_text and "nvariant" not in r.error_text):
        raise tlc.TLCError("TV.tla did not run to completion:\n" + r.out[-4000:])
    res.reports = tvcheck.uniq_reports(r.reports["TVREPORT"])
    res.states, res.transitions = r.states, r.transitions
    cnt = tvcheck.classify_tv(ctx, res)
    model_dep = sum(1 for rep in res.reports for v in rep["v"] if v.get("r") == "agree" and v.get("model") == "build")
    cov = {
        "programs": len(cases),
        "disagreements_checked": cnt["mismatch"] + cnt["deviation"],
        "states": r.states, "transitions": r.transitions,
        "traces_validated_against_impl": sum(len(c["obs"]) for c in cases),
        "evaluations": r.states // 2, "distinct_nontrivial": len(cases),
        "rule": "instructions = %s of the bundled corpus; every accepted non-float part and the 13 bundled sub-routines are "
                "validated on boundary/random input states; non-trivial = accepted part evaluated on its whole input family"
                % ("all 2181" if ctx.tier == "thorough" else "seeded stratified sample of 150"),
        "instructions": len(names), "in_dialect": n_in, "in_dialect_but_rejected": n_in_rej,
        "verdict_counts": cnt, "model_dependent_inputs(agree only under M_build)": model_dep,
        "info": info,
        "samples": [{"id": c["id"], "c_text": c["text"][:200], "inputs": c["nin"]} for c in cases[:3]],
        "exhaustive": False,
    }
    return ctx.finish("translation_validation", cov, ASSUME)


if __name__ == "__main__":
    checklib.main("C01", run)
