"""C02 -- integer operators follow C11 promotion, common type and operator semantics."""
from .. import checklib, tvcheck

ASSUME = [
    "A2 initial states, A3 operand types (DESIGN.md section 5)",
    "RzIL operator semantics transcribed from Rizin's documentation (RzIL.tla); BV.tla model-checked against integer arithmetic",
    "front ends (printer, emitted-text reader) are projection functions",
]


def run(ctx):
    progs, g = tvcheck.generate("Gen_C02.tla", ctx.seed, ctx.tier)
    if ctx.replay:
        import json
        rp = json.load(open(ctx.replay))
        progs = [p for p in progs if p["id"] == rp["program"]["id"]] or [rp["program"]]
    for p in progs:
        # thorough: all 65536 value pairs for the 8-bit x 8-bit programs of the operators whose result depends on promotion
        # (bitwise & | ^ and the mirrored comparisons keep the boundary / low-byte grids): ~2.8 M evaluations
        if p.get("fam") == "grid" and (p["tags"][0] != "bin" or p["tags"][1] in ("+", "-", "*", "<<", ">>", "<", ">=", "==", "&&")):
            p["full8"] = True
    res = tvcheck.run_batch(ctx, progs)
    cnt = tvcheck.classify_tv(ctx, res)
    # an operator expression of the supported dialect must be accepted
    for rid, exc, inner, msg in res.rejected:
        p = [x for x in progs if x["id"] == rid][0]
        f = tvcheck.match_shape(ctx, p, None)
        if f:
            ctx.note_known(f, p["text"][:160])
        else:
            ctx.violation("operator expression rejected (%s/%s: %s): %s" % (exc, inner, (msg or "")[:80], p["text"][:200]),
                          {"kind": "rejected", "program": p})
    for u in res.unreadable:
        ctx.violation("emitted text unreadable: %s" % (u,), {"kind": "unreadable", "id": u[0]})
    cov = {
        "programs": res.programs,
        "accepted": res.accepted,
        "rejected": len(res.rejected),
        "disagreements_checked": cnt["mismatch"] + cnt["deviation"],
        "states": res.states,
        "transitions": res.transitions,
        "traces_validated_against_impl": res.accepted * 2,
        "evaluations": res.states,
        "distinct_nontrivial": res.accepted,
        "rule": "programs = TLC enumeration of Gen_C02 (all 15 binary ops x 8x8 types, 3 unary x 8, ?: x 8x8x8, "
                "seeded depth-2 and random trees); a program is non-trivial if the compiler accepted it and TLC "
                "evaluated it on its whole input family (grid: one 8-bit operand exhaustive x boundary values; "
                "pairs: boundary x boundary + random)",
        "verdict_counts": cnt,
        "samples": tvcheck.samples_of(res),
        "exhaustive": False,
    }
    return ctx.finish("translation_validation", cov, ASSUME)


if __name__ == "__main__":
    checklib.main("C02", run)
