#!/venv/bin/python
"""Parses texts with the repository's grammar exactly as the compiler does (Lark(grammar, start="fbody",
parser="earley")) and projects the trees to the CSem syntax.
usage: lark_driver.py <in.json> <out.json> <verif root>
in : {"mode": "reuse"|"fresh", "procs": n, "items": [{"id", "text"}]}
out: {"results": [{"id", "ok", "ast" | "err", "pretty_hash"}]}"""
import hashlib
import json
import multiprocessing as mp
import sys

sys.path.insert(0, sys.argv[3])
sys.setrecursionlimit(10000)
from lark import Lark  # noqa: E402
from harness.front import larkproj  # noqa: E402
from rzilcompiler.Configuration import Conf, InputFile  # noqa: E402

P = {}


def get_parser(fresh):
    if fresh or "p" not in P:
        with open(Conf.get_path(InputFile.GRAMMAR, "Hexagon")) as f:
            grammar = "".join(f.readlines())
        P["p"] = Lark(grammar, start="fbody", parser="earley")
    return P["p"]


def work(arg):
    item, fresh = arg
    try:
        tree = get_parser(fresh).parse(item["text"])
    except Exception as e:
        return {"id": item["id"], "ok": False, "err": type(e).__name__}
    h = hashlib.sha1(tree.pretty().encode()).hexdigest()[:16]
    try:
        ast = larkproj.canon(larkproj.project(tree))
    except larkproj.ProjError as e:
        return {"id": item["id"], "ok": True, "proj": False, "err": "ProjError: " + str(e), "pretty_hash": h}
    except Exception as e:
        return {"id": item["id"], "ok": True, "proj": False, "err": "%s: %s" % (type(e).__name__, str(e)[:100]), "pretty_hash": h}
    return {"id": item["id"], "ok": True, "proj": True, "ast": ast, "pretty_hash": h}


def main():
    spec = json.load(open(sys.argv[1]))
    fresh = spec.get("mode") == "fresh"
    items = [(it, fresh) for it in spec["items"]]
    procs = int(spec.get("procs", 16))
    with mp.get_context("fork").Pool(procs) as pool:
        res = pool.map(work, items, chunksize=max(1, len(items) // (procs * 4)))
    json.dump({"results": res}, open(sys.argv[2], "w"))


if __name__ == "__main__":
    main()
