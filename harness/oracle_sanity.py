"""bin/oracle-sanity: cross-checks the C semantics of the specification (CSem.tla, evaluated by TLC) against the
sandbox's C compiler on the generated programs of the operator / conversion / literal generators.

  TLC (Gen_C02 / Gen_C03 / Gen_C09)  ->  programs
  TLC (CRef.tla)                     ->  for every program x input state: inputs, final locals, written registers
  clang -O0 -fwrapv                  ->  the same programs as C functions, run on the same inputs
  comparison                         ->  every local / written register must coincide wherever CSem says "defined"

This validates the oracle, it decides no property: a disagreement here means CSem.tla (or the printer) is wrong and
every translation-validation verdict would be suspect.  Exit 0: all agree; 1: a disagreement (printed)."""
import json
import os
import shutil
import subprocess
import sys
import tempfile

from . import tlc, tv, tvcheck
from .front import cast

SUPPORTED_EXPR = {"num", "var", "reg", "imm", "un", "bin", "cond", "cast", "assign", "sizeof", "postfix"}
SUPPORTED_STMT = {"decl", "expr", "empty", "block", "if", "for"}


def supported(p):
    ok = [True]

    def f(n):
        k = n.get("k")
        if k in ("none", None):
            return
        if k not in SUPPORTED_EXPR and k not in SUPPORTED_STMT:
            ok[0] = False
        if k == "reg" and (n.get("kind") != "isa" or n.get("new") or n.get("rt") not in ("R", "P", "C", "M")):
            ok[0] = False
    cast.walk(p["body"], f)
    return ok[0]


def top_level_vars(body):
    return [s["n"] for s in body if s.get("k") == "decl"]


def cty(t):
    return ("" if t["s"] else "u") + "int%d_t" % t["w"]


def val(bv):
    return sum(b << (8 * i) for i, b in enumerate(bv["l"]))


def obj(x):
    return x if isinstance(x, dict) else {}


def main(argv):
    tier = "quick"
    seed = int(os.environ.get("VERIF_SEED", "1"))
    if "--tier" in argv:
        tier = argv[argv.index("--tier") + 1]
    mods = ["Gen_C02.tla", "Gen_C03.tla", "Gen_C09.tla"]
    progs = []
    for m in mods:
        ps, _ = tvcheck.generate(m, seed, tier)
        if isinstance(ps, dict):
            ps = ps["programs"]
        for p in ps:
            if supported(p):
                progs.append(p)
    if "--every" in argv:
        progs = progs[::int(argv[argv.index("--every") + 1])]
    for p in progs:
        p["text"] = cast.program_text(p["body"])
    cases = []
    for p in progs:
        regs, imms = cast.resources(p["body"])
        fam = p.get("fam", "std")
        if fam in ("grid", "grid1", "full8"):
            fam = "pairs"
        cases.append({"id": p["id"], "src": {"kind": "insn", "body": p["body"], "params": [], "void": True, "ret": cast.T(False, 64)},
                      "regs": regs, "imms": imms, "obs": [], "cmpvars": top_level_vars(p["body"]), "fam": fam,
                      "gk": p.get("gk", ["op:s", "op:t"]), "nin": tvcheck.FAM_NIN[fam](tier), "tags": p.get("tags", [])})
    d = tempfile.mkdtemp(prefix="verif_osan_")
    try:
        f = os.path.join(d, "tv.json")
        tv.dump_tv(f, cases, {}, {}, [])
        r = tlc.run("CRef.tla", "CRef.cfg", env={"TV_FILE": f, "TV_SEED": seed, "TV_NB": tvcheck.nb(tier)}, tags=("CREF",), timeout=7200)
        lines = r.reports["CREF"]
        if not lines:
            print("oracle-sanity: TLC produced nothing\n" + r.out[-3000:])
            return 2
        by = {}
        for ln in lines:
            by.setdefault(ln["id"], {})[ln["k"]] = ln
        pid = {p["id"]: p for p in progs}
        # C source: one function per program
        src = ["#include <stdint.h>", "#include <stdio.h>", "#include <string.h>", "#include <setjmp.h>", "#include <signal.h>",
               "#include <stddef.h>", "static sigjmp_buf jb; static void onfpe(int s) { (void)s; siglongjmp(jb, 1); }"]
        order = []
        layout = {}
        for i, (cid, per) in enumerate(sorted(by.items())):
            p = pid[cid]
            any_line = next(iter(per.values()))
            rt = obj(any_line["rt"])
            regs, imms = cast.resources(p["body"])
            ins = []     # (c name, c type, source key)
            for rg in regs:
                key = "op:" + rg["acc"]
                ins.append((cast.regtok(rg), cty(rt[key]), ("old", key)))
            for l in imms:
                ins.append((l + "iV", "int32_t" if l in "rRsS" else "uint32_t", ("imm", l)))
            tl = top_level_vars(p["body"])
            body = p["text"].strip()
            assert body.startswith("{") and body.endswith("}")
            fn = ["static void p%d(const uint64_t *in, uint64_t *out) {" % i]
            for j, (nm, ty, _) in enumerate(ins):
                fn.append("  %s %s = (%s)in[%d];" % (ty, nm, ty, j))
            fn.append("  " + body[1:-1])
            outs = []
            for nm in tl:
                outs.append(("var", nm))
            for nm, ty, (kind, key) in ins:
                if kind == "old":
                    outs.append(("reg", key, nm))
            for j, o in enumerate(outs):
                fn.append("  out[%d] = (uint64_t)%s;" % (j, o[-1] if o[0] == "reg" else o[1]))
            fn.append("}")
            src.append("\n".join(fn))
            order.append(cid)
            layout[cid] = (ins, outs)
        src.append("typedef void (*fn_t)(const uint64_t *, uint64_t *);")
        src.append("static fn_t T[] = {" + ",".join("p%d" % i for i in range(len(order))) + "};")
        src.append("""int main(void) { signal(SIGFPE, onfpe); unsigned idx, k, n; uint64_t in[16], out[32];
  while (scanf("%u %u %u", &idx, &k, &n) == 3) { for (unsigned j = 0; j < n; j++) scanf("%lx", &in[j]);
    memset(out, 0, sizeof out);
    if (sigsetjmp(jb, 1)) { printf("%u %u TRAP\\n", idx, k); continue; }
    T[idx](in, out); printf("%u %u", idx, k); for (unsigned j = 0; j < 32; j++) printf(" %lx", out[j]); printf("\\n"); }
  return 0; }""")
        cf = os.path.join(d, "p.c")
        open(cf, "w").write("\n".join(src))
        exe = os.path.join(d, "p")
        cc = subprocess.run(["clang", "-O0", "-fwrapv", "-w", "-o", exe, cf], stdout=subprocess.PIPE, stderr=subprocess.PIPE)
        if cc.returncode != 0:
            print("oracle-sanity: clang failed\n" + cc.stderr.decode()[-3000:])
            return 2
        feed = []
        for i, cid in enumerate(order):
            ins, outs = layout[cid]
            for k, ln in sorted(by[cid].items()):
                vals = []
                for nm, ty, (kind, key) in ins:
                    vals.append(val(obj(ln["old"])[key]) if kind == "old" else val(obj(ln["imm"])[key]))
                feed.append("%d %d %d %s" % (i, k, len(vals), " ".join("%x" % v for v in vals)))
        run = subprocess.run([exe], input="\n".join(feed).encode(), stdout=subprocess.PIPE, stderr=subprocess.PIPE)
        got = {}
        for l in run.stdout.decode().split("\n"):
            w = l.split()
            if len(w) >= 3:
                got[(int(w[0]), int(w[1]))] = w[2:]
        bad = 0
        checked = 0
        undefined = 0
        for i, cid in enumerate(order):
            ins, outs = layout[cid]
            for k, ln in by[cid].items():
                if ln["unspec"] or ln["div"]:
                    undefined += 1
                    continue
                g = got.get((i, k))
                if g is None or g[0] == "TRAP":
                    bad += 1
                    print("DISAGREE %s input %d: the C program %s but CSem defines a result: %s" % (cid, k, "trapped" if g else "did not run", pid[cid]["text"]))
                    continue
                vars_ = {n: x for n, x in obj(ln["vars"]).items() if isinstance(x.get("v"), dict) and "l" in x["v"]}
                wr = {key: x for key, x in obj(ln["new"]).items() if key in set(ln["wrs"])}
                for j, o in enumerate(outs):
                    cv = int(g[j], 16)
                    if o[0] == "var":
                        if o[1] not in vars_:
                            continue
                        t, ev = vars_[o[1]]["t"], val(vars_[o[1]]["v"])
                        cvm = cv & ((1 << t["w"]) - 1)
                        what = o[1]
                    else:
                        if o[1] not in wr:
                            continue
                        ev = val(wr[o[1]])
                        cvm = cv & ((1 << wr[o[1]]["w"]) - 1)
                        what = o[2]
                    checked += 1
                    if cvm != ev:
                        bad += 1
                        if bad <= 40:
                            print("DISAGREE %s input %d: %s = %#x in C, %#x in CSem: %s   inputs %s" % (
                                cid, k, what, cvm, ev, pid[cid]["text"],
                                {nm: hex(val(obj(ln["old"])[key]) if kind == "old" else val(obj(ln["imm"])[key])) for nm, ty, (kind, key) in ins}))
        print("oracle-sanity csem: %d programs, %d program x input evaluations, %d values compared, %d undefined in C (skipped), %d disagreements" % (
            len(order), len(feed), checked, undefined, bad))
        return 1 if bad else 0
    finally:
        shutil.rmtree(d, ignore_errors=True)


if __name__ == "__main__":
    sys.exit(main(sys.argv[1:]))
