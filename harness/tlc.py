"""Runs TLC on a module of /verif/spec and parses its summary (states, transitions) and the
single-line JSON reports printed by the specification (PrintT("TAG " \\o ToJson(..)))."""
import json
import os
import sys
import re
import shutil
import subprocess
import tempfile
import time

HERE = os.path.dirname(os.path.abspath(__file__))
SPEC = os.path.join(os.path.dirname(HERE), "spec")
JAR = "/opt/veriftools/tla/tla2tools.jar"
CM = "/opt/veriftools/tla/CommunityModules-deps.jar"


class TLCError(Exception):
    pass


class TLCResult:
    def __init__(self):
        self.states = 0
        self.distinct = 0
        self.out = ""
        self.ok = False  # "Model checking completed. No error has been found." / simulation finished
        self.invariant_violated = None
        self.reports = {}  # tag -> list of json objects
        self.wall = 0.0
        self.rc = None
        self.error_text = ""


def extract_reports(out, tags):
    """Reports are printed as  "TAG {json}"  (TLC wraps PrintT strings in quotes and escapes)."""
    res = {t: [] for t in tags}
    for t in tags:
        pos = 0
        key = t + " "
        while True:
            i = out.find(key, pos)
            if i < 0:
                break
            j = i + len(key)
            # the payload is a JSON value inside a TLA+ string: unescape \" and \\ while scanning
            depth = 0
            buf = []
            instr = False
            k = j
            n = len(out)
            started = False
            while k < n:
                ch = out[k]
                if ch == "\\" and k + 1 < n and out[k + 1] in '"\\':
                    # TLA+ string escape
                    real = out[k + 1]
                    k += 2
                    if real == '"':
                        instr = not instr
                    buf.append(real)
                    continue
                if ch == '"':
                    break  # end of the TLA+ string
                buf.append(ch)
                if not instr:
                    if ch in "{[":
                        depth += 1
                        started = True
                    elif ch in "}]":
                        depth -= 1
                        if started and depth == 0:
                            k += 1
                            break
                k += 1
            txt = "".join(buf)
            try:
                res[t].append(json.loads(txt))
            except Exception:
                res[t].append({"unparsed": txt[:200]})
            pos = k
    return res


def merge(results):
    """one TLCResult for several runs of the same module over disjoint batches of the input"""
    if len(results) == 1:
        return results[0]
    m = TLCResult()
    m.transitions = 0
    for r in results:
        m.states += r.states
        m.transitions += getattr(r, "transitions", 0)
        m.wall += r.wall
        m.out += r.out[-20000:]
        m.ok = all(x.ok for x in results)
        m.invariant_violated = m.invariant_violated or r.invariant_violated
        m.error_text = m.error_text or r.error_text
        for t, lst in r.reports.items():
            m.reports.setdefault(t, []).extend(lst)
    # a batch that did not run counts as "did not run" for the whole
    if any(r.states == 0 for r in results):
        m.states = 0
    return m


def _corrupt(env, seed):
    """bin/selftest-corrupt: flips ONE recorded leaf value in the observation file handed to TLC (binding self-test:
    a check whose specification really constrains the recorded data reports a violation).  Never active in a check run."""
    import json
    import random
    for key in ("TV_FILE", "TRACE_FILE"):
        f = env.get(key)
        if not f or not os.path.isfile(str(f)) or os.path.getsize(str(f)) == 0:
            continue
        try:
            data = json.load(open(f))
        except ValueError:
            continue
        leaves = []

        def walk(x, path):
            if isinstance(x, dict):
                for k, v in x.items():
                    if k in ("id", "text", "name", "tags", "c_text", "fmt", "why", "devsets", "known", "allowed"):
                        continue
                    walk(v, path + [k])
            elif isinstance(x, list):
                if path and path[-1] in ("v", "l") and all(isinstance(v, int) for v in x):
                    return     # the limbs of a constant: only value-level properties depend on them
                for i, v in enumerate(x):
                    walk(v, path + [i])
            elif isinstance(x, (bool, int, str)):
                leaves.append(path)
        walk(data, [])
        if not leaves:
            continue
        rnd = random.Random(seed)
        path = rnd.choice(leaves)
        x = data
        for k in path[:-1]:
            x = x[k]
        old = x[path[-1]]
        x[path[-1]] = (not old) if isinstance(old, bool) else (old ^ 1 if isinstance(old, int) else old + "_x")
        json.dump(data, open(f, "w"))
        sys.stderr.write("CORRUPTED %s at %s: %r -> %r\n" % (key, "/".join(map(str, path)), old, x[path[-1]]))
        return


def run(module, cfg, env=None, workers=None, timeout=3600, simulate=None, depth=None, seed=None,
        coverage=False, tags=(), extra=(), deadlock=False, xss="512m", heap=None):
    """Runs TLC with cwd = spec dir.  Returns TLCResult.  Raises TLCError only for machinery failure."""
    workers = workers or os.cpu_count() or 4
    meta = tempfile.mkdtemp(prefix="verif_tlc_")
    cmd = ["java", "-XX:+UseParallelGC", "-XX:ParallelGCThreads=4", "-Xss" + xss]
    if heap:
        cmd.append("-Xmx" + heap)
    cmd += ["-cp", JAR + ":" + CM, "tlc2.TLC", "-workers", str(workers), "-metadir", meta,
            "-noGenerateSpecTE", "-config", cfg]
    if not deadlock:
        cmd.append("-deadlock")  # -deadlock disables deadlock checking
    if simulate:
        cmd += ["-simulate", simulate]
    if depth:
        cmd += ["-depth", str(depth)]
    if seed is not None:
        cmd += ["-seed", str(seed)]
    if coverage:
        cmd += ["-coverage", "1"]
    cmd += list(extra)
    cmd.append(module)
    e = dict(os.environ)
    if env:
        e.update({k: str(v) for k, v in env.items()})
    if os.environ.get("VERIF_CORRUPT") and env:
        _corrupt(env, int(os.environ["VERIF_CORRUPT"]))
    t0 = time.time()
    try:
        p = subprocess.run(cmd, cwd=SPEC, env=e, stdout=subprocess.PIPE, stderr=subprocess.STDOUT, timeout=timeout)
    except subprocess.TimeoutExpired as ex:
        shutil.rmtree(meta, ignore_errors=True)
        raise TLCError("TLC timed out after %ss: %s" % (timeout, " ".join(cmd)))
    finally:
        pass
    shutil.rmtree(meta, ignore_errors=True)
    r = TLCResult()
    r.wall = time.time() - t0
    r.rc = p.returncode
    r.out = p.stdout.decode(errors="replace")
    m = re.search(r"(\d+) states generated, (\d+) distinct states found", r.out)
    if m:
        r.states = int(m.group(2))
        r.transitions = int(m.group(1))
    else:
        r.transitions = 0
    r.ok = "No error has been found" in r.out
    m = re.search(r"Invariant (\w+) is violated", r.out)
    if m:
        r.invariant_violated = m.group(1)
    m = re.search(r"Error: (.*?)(?:\n\n|\Z)", r.out, re.S)
    if m and not r.invariant_violated:
        r.error_text = m.group(1)[:2000]
    r.reports = extract_reports(r.out, tags)
    return r
