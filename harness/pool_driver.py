#!/venv/bin/python
"""Runs the real Parser.parse under imposed schedules and records per-process event sequences
(spec/Trace_ParsePool.tla).  No source hooks: module attributes of rzilcompiler.Parser are wrapped
from outside (parse_single, Pool, tqdm); the wrappers survive the fork into the pool workers.

usage: pool_driver.py <scenarios.json> <traces.json>
scenario: {"id", "names": [...], "behaviors": {name: [part, ...]}, "pool": k, "delays": {"<task index>": seconds}}
"""
import functools
import hashlib
import json
import multiprocessing
import os
import sys
import tempfile
import time

import rzilcompiler.Parser as P

ORIG_PARSE_SINGLE = P.parse_single
ORIG_POOL = multiprocessing.Pool
STATE = {"dir": None, "index": {}, "delays": {}, "seq": 0}


def summary(pinsn):
    """outcome of a ParsedInsn as [kind, number of trees, detail]: kind "ok"/"err"; detail = hash of the
    trees or the exception name; equal summaries <=> same exception name / same trees"""
    h = hashlib.sha1()
    for t in pinsn.asts:
        h.update(t.pretty().encode())
        h.update(b"|")
    if pinsn.exception is not None:
        return ["err", len(pinsn.asts), pinsn.exception.name]
    return ["ok", len(pinsn.asts), h.hexdigest()[:16]]


def log_event(ev):
    STATE["seq"] += 1
    with open(os.path.join(STATE["dir"], "proc_%d.log" % os.getpid()), "a") as f:
        f.write(json.dumps([STATE["seq"]] + ev) + "\n")


def wrapped_parse_single(bundle):
    t = STATE["index"].get(bundle.name, 0)
    log_event(["S", t])
    d = STATE["delays"].get(str(t), 0)
    if d:
        time.sleep(d)
    try:
        res = ORIG_PARSE_SINGLE(bundle)
    except BaseException as e:  # parse_single is specified never to raise
        log_event(["F", t, ["raised", 0, type(e).__name__]])
        raise
    outs = [summary(v) for v in res.values()]
    keys = list(res.keys())
    out = outs[0] if (len(outs) == 1 and keys == [bundle.name]) else ["badkeys", 0, str(keys)]
    log_event(["F", t, out])
    return res


def run_scenario(sc):
    d = tempfile.mkdtemp(prefix="verif_pool_")
    STATE["dir"] = d
    STATE["index"] = {n: i + 1 for i, n in enumerate(sc["names"])}
    STATE["delays"] = sc.get("delays", {})
    STATE["seq"] = 0
    beh = {n: sc["behaviors"][n] for n in sc["names"]}
    parent = []

    def yield_logger(it, **kw):
        for res in it:
            for k, v in res.items():
                parent.append(["Y", STATE["index"].get(k, 0), summary(v)])
            yield res

    P.parse_single = wrapped_parse_single
    P.Pool = functools.partial(ORIG_POOL, sc["pool"])
    P.tqdm = yield_logger
    err = None
    try:
        result = P.Parser().parse(beh)
    except BaseException as e:
        err = "Parser.parse raised %s: %s" % (type(e).__name__, str(e)[:200])
        result = {}
    finally:
        P.parse_single = ORIG_PARSE_SINGLE
        P.Pool = ORIG_POOL
    # sequential reference, in process
    with open(P.Conf.get_path(P.InputFile.GRAMMAR, "Hexagon")) as f:
        grammar = "".join(f.readlines())
    # The reference does not go through parse_single: every behaviour is parsed by a parser object built for
    # it alone, so nothing a worker (or this process) may keep between parses -- a parser, a table of trees --
    # can leak into it.  parse_single in process is compared with it as well (history: the order of sc["names"]).
    seq, seq_ps = [], []
    for n in sc["names"]:
        trees, exc = [], None
        try:
            lk = None
            for b in beh[n]:
                if lk is None or len(sc["names"]) <= 12:      # small scenarios: one parser object per part
                    lk = P.Lark(grammar, start="fbody", parser="earley")
                trees.append(lk.parse(b))
        except Exception as e:
            trees, exc = [], P.ParserException(e)
        seq.append(summary(P.ParsedInsn(n, trees, beh[n], exc)))
        if len(sc["names"]) <= 12:
            r = ORIG_PARSE_SINGLE(P.InsnParsingBundle(grammar, n, beh[n]))
            seq_ps.append(summary(r[n]) if list(r.keys()) == [n] else ["badkeys", 0, str(list(r.keys()))])
    if err is None and seq_ps and seq_ps != seq:
        bad = [i for i in range(len(seq)) if seq_ps[i] != seq[i]]
        err = "in-process parse_single differs from a parser built for the behaviour alone at tasks %s: %s vs %s" % (
            [b + 1 for b in bad][:5], seq_ps[bad[0]], seq[bad[0]])
    procs = []
    for fn in sorted(os.listdir(d)):
        evs = [json.loads(l) for l in open(os.path.join(d, fn))]
        evs.sort(key=lambda e: e[0])
        procs.append([e[1:] for e in evs])
    for fn in os.listdir(d):
        os.remove(os.path.join(d, fn))
    os.rmdir(d)
    res_list = []
    extra = [k for k in result if k not in STATE["index"]]
    for n in sc["names"]:
        if n in result:
            v = result[n]
            ok_name = getattr(v, "name", None) == n and list(getattr(v, "behaviors", [])) == list(beh[n])
            res_list.append(summary(v) if ok_name else ["wrongentry", 0, str(summary(v))])
    return {"id": sc["id"], "seq": seq, "parts": [len(beh[n]) for n in sc["names"]],
            "failat": sc.get("failat") or [0] * len(sc["names"]), "procs": procs or [[]], "parent": parent, "result": res_list,
            "extra_keys": extra, "error": err or "", "pool": sc["pool"], "nworkers_seen": len(procs)}


def main():
    scs = json.load(open(sys.argv[1]))
    out = [run_scenario(sc) for sc in scs]
    json.dump({"traces": out}, open(sys.argv[2], "w"))


if __name__ == "__main__":
    main()
