"""Bundled corpus -> translation-validation cases (C01, C07, C10..C13, C16 reuse this)."""
import json
import random
import re

from . import corpus, impl, tv
from .front import cast, cparse, emitted

FLOAT_CALLS = {"FLOAT", "DOUBLE", "fUNFLOAT", "fUNDOUBLE", "HEX_GET_INSN_RMODE", "HEX_SETROUND", "HEX_SINT_TO_D",
               "HEX_SINT_TO_F", "HEX_INT_TO_D", "HEX_INT_TO_F", "HEX_F_TO_SINT", "HEX_D_TO_SINT", "HEX_F_TO_INT",
               "HEX_D_TO_INT", "IS_INF", "IS_FINF"}


# calls whose names begin with f but are integer sub-routines / built-ins (everything else beginning with f is one of QEMU's
# floating point helper macros)
NOT_FLOAT = {"fcirc_add", "fbrev", "fatal"}


def parse_param(decl):
    """'int32_t offset' / 'const HexOp *RxV' -> {n, t, kind}"""
    m = re.match(r"^(.*?)(\w+)$", decl.strip())
    ctype, name = m.group(1).strip(), m.group(2)
    try:
        t = cparse.Parser.type_from_words([w for w in ctype.replace("*", " * ").split() if w != "*"],
                                          ctype.count("*"))
        if "nonint" in t or t.get("ptr"):
            raise cparse.ParseError("not a value type")
        return {"n": name, "t": cast.T(t["s"], t["w"]), "kind": "val", "ctype": ctype}
    except cparse.ParseError:
        return {"n": name, "t": cast.T(False, 64), "kind": "ext", "ctype": ctype}


def c_sub(name, routine):
    """sub_routines.json entry -> CSem sub-routine record"""
    params = [parse_param(p) for p in routine["params"]]
    rt = routine["return_type"].strip()
    void = rt == "void"
    if void:
        ret = cast.T(False, 32)
    else:
        t = cparse.Parser.type_from_words(rt.split())
        ret = cast.T(t["s"], t["w"])
    body = cparse.parse_body(routine["code"])
    return {"params": params, "ret": ret, "void": void, "body": body, "kind": "sub"}


def uses_float(body):
    found = []

    def f(n):
        if n.get("k") == "call" and (n["f"] in FLOAT_CALLS or (n["f"].startswith("f") and n["f"] not in NOT_FLOAT)):
            found.append(n["f"])
        if n.get("k") in ("decl", "cast") and "nonint" in n.get("t", {}):
            found.append("type")
        if n.get("k") == "fnum":
            found.append("fnum")

    cast.walk(body, f)
    return bool(found)


def callees(body):
    out = []

    def f(n):
        if n.get("k") == "call" and n["f"] not in out:
            out.append(n["f"])

    cast.walk(body, f)
    return out


def resources_closure(body, csubs):
    """registers/immediates of a body plus those of the sub-routines it calls (transitively)"""
    regs, imms = cast.resources(body)
    seen = set()
    todo = callees(body)
    keys = {cast.regkey(r) for r in regs}
    while todo:
        f = todo.pop()
        if f in seen or f not in csubs:
            continue
        seen.add(f)
        r2, i2 = cast.resources(csubs[f]["body"])
        for r in r2:
            if cast.regkey(r) not in keys:
                keys.add(cast.regkey(r))
                regs.append(r)
        for i in i2:
            if i not in imms:
                imms.append(i)
        todo.extend(callees(csubs[f]["body"]))
    return regs, imms


class Corpus:
    def __init__(self):
        self.beh = corpus.load_behaviors()
        self.noped = corpus.load_noped()
        self.sub_src = corpus.load_sub_routines()
        self.csubs = {n: c_sub(n, r) for n, r in self.sub_src.items()}
        self.ast = {}  # name -> [ast or None per part]
        self.perr = {}
        for n, parts in self.beh.items():
            a = []
            for i, b in enumerate(parts):
                try:
                    a.append(cparse.parse_body(b))
                except cparse.ParseError as e:
                    a.append(None)
                    self.perr[(n, i)] = str(e)
            self.ast[n] = a

    def classes(self, name):
        """syntactic classes of an instruction (for stratified sampling)"""
        cls = set()
        for a in self.ast[name]:
            if a is None:
                cls.add("unparsed")
                continue

            def f(n):
                k = n.get("k")
                if k in ("jump", "load", "store", "for", "if", "cond", "postfix", "stmtexpr"):
                    cls.add(k)
                if k == "call":
                    cls.add("call:" + n["f"] if n["f"] in self.csubs else "call")
                if k == "reg" and n.get("rt") == "P":
                    cls.add("pred")
                if k == "reg" and n.get("new"):
                    cls.add("new")
                if k == "reg" and n.get("kind") != "isa":
                    cls.add(n["kind"])

            cast.walk(a, f)
            if uses_float(a):
                cls.add("float")
        if len(self.ast[name]) == 2:
            cls.add("compound")
        return cls

    def sample(self, n, seed):
        """seeded sample of n instructions that covers every syntactic class at least twice"""
        rnd = random.Random(seed)
        names = sorted(self.beh)
        rnd.shuffle(names)
        chosen = []
        need = {}
        for nm in names:
            for c in self.classes(nm):
                need.setdefault(c, 0)
        for nm in names:
            cs = self.classes(nm)
            if any(need[c] < 2 for c in cs):
                chosen.append(nm)
                for c in cs:
                    need[c] += 1
        for nm in names:
            if len(chosen) >= n:
                break
            if nm not in chosen:
                chosen.append(nm)
        return sorted(chosen)


def compile_insns(cp, names, formats=tv.FORMATS, repo=None):
    """-> ({name: {fmt: result}}, {subname: def result})"""
    jobs = []
    for nm in names:
        insts = [fi for fi, f in enumerate(tv.FORMATS) if f in formats]
        jobs.append({"id": nm, "steps": [{"op": "insn", "insts": insts, "name": nm, "behaviors": cp.beh[nm]}]})
    jobs.append({"id": "__subs__", "steps": [{"op": "subdef", "inst": 0, "name": s} for s in cp.sub_src]})
    res = impl.run_jobs(jobs, repo=repo)
    out = {}
    for nm in names:
        r = res[nm]
        if r.get("harness_error"):
            raise impl.ImplError(r["harness_error"])
        d = {}
        i = 0
        for f in tv.FORMATS:
            if f in formats:
                d[f] = r["res"][0]["multi"][i]
                i += 1
        out[nm] = d
    subs = {}
    for s, r in zip(cp.sub_src, res["__subs__"]["res"]):
        subs[s] = r
    return out, subs


def il_subs_table(subdefs):
    """observed DEF texts -> ({name: {params, body}}, {name: events}, errors)"""
    tab = {}
    evs = {}
    errs = {}
    for name, r in subdefs.items():
        if not r.get("ok"):
            errs[name] = r
            continue
        try:
            a = emitted.read_emitted(r["def"], is_subdef=True)
        except emitted.EmittedFormatError as e:
            errs[name] = {"unreadable": str(e)}
            continue
        tab[name] = {"params": [p["name"] for p in a["params"]], "body": a["term"], "decl": r.get("decl", "")}
        evs[name] = a["events"]
    for name in tab:
        tv.annotate_build_order(tab[name]["body"], tab)
        tv.default_false_bnew(tab[name]["body"])
    return tab, evs, errs
