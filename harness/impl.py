"""Python-side entry to the real implementation: runs harness/impl_worker.py under /venv/bin/python
with cwd = repository root, so that every check recompiles from the current working tree."""
import json
import os
import subprocess
import tempfile

HERE = os.path.dirname(os.path.abspath(__file__))
REPO = os.environ.get("VERIF_REPO", "/repo")
PY = os.environ.get("VERIF_IMPL_PY", "/venv/bin/python")


class ImplError(Exception):
    pass


def run_jobs(jobs, mode="pool", procs=None, repo=None, timeout=3600, hashseed="0"):
    repo = repo or REPO
    d = tempfile.mkdtemp(prefix="verif_impl_")
    try:
        jf = os.path.join(d, "jobs.json")
        rf = os.path.join(d, "res.json")
        json.dump({"mode": mode, "procs": procs or os.cpu_count(), "jobs": jobs}, open(jf, "w"))
        env = dict(os.environ)
        env["PYTHONPATH"] = repo
        env["PYTHONHASHSEED"] = str(hashseed)
        env["PYTHONDONTWRITEBYTECODE"] = "1"
        p = subprocess.run(
            [PY, os.path.join(HERE, "impl_worker.py"), jf, rf],
            cwd=repo, env=env, stdout=subprocess.PIPE, stderr=subprocess.PIPE, timeout=timeout,
        )
        if p.returncode != 0 or not os.path.exists(rf):
            raise ImplError(
                "implementation driver failed (rc=%s):\n%s" % (p.returncode, p.stderr.decode()[-3000:])
            )
        res = json.load(open(rf))["results"]
        return {r["id"]: r for r in res}
    finally:
        subprocess.run(["rm", "-rf", d])
