"""One generic check body for the generated-program translation-validation properties."""
import json

from . import checklib, tvcheck

ASSUME = [
    "A2 initial states, A3 operand types, A4 memory (DESIGN.md section 5)",
    "RzIL operator semantics transcribed from Rizin's documentation (RzIL.tla); BV.tla model-checked against integer arithmetic",
    "front ends (printer, emitted-text reader) are projection functions",
]


def run_generated(ctx, prop, module, rule, must_accept=True, post=None, level="translation_validation", extra_cov=None,
                  prepare=None, il_subs=None, c_subs=None, mode="pool"):
    progs, g = tvcheck.generate(module, ctx.seed, ctx.tier)
    sub_errors = {}
    if isinstance(progs, dict):
        gen_subs = progs.get("subs", [])
        progs = progs["programs"]
        il_subs, c_subs, reg, sub_errors, _ = tvcheck.prepare_subs(gen_subs)
        for p in progs:
            p["subs"] = reg
        for n, e in sub_errors.items():
            ctx.violation("generated/bundled sub-routine %s cannot be registered or read: %s" % (n, str(e)[:200]), {"kind": "sub", "name": n})
    if ctx.replay:
        rp = json.load(open(ctx.replay))
        pid = rp.get("program", {}).get("id")
        progs = [p for p in progs if p["id"] == pid] or ([rp["program"]] if "program" in rp else progs[:3])
    if prepare:
        progs = prepare(progs)
    res = tvcheck.run_batch(ctx, progs, il_subs=il_subs, c_subs=c_subs, mode=mode)
    cnt = tvcheck.classify_tv(ctx, res)
    nrep = sum(len(rep["v"]) for rep in res.reports)
    cnt["agree"] = res.states // 2 * 2 - nrep if False else max(0, sum(c["nin"] * len(c["obs"]) for _, c in res.cases.values()) - nrep)
    if must_accept:
        for rid, exc, inner, msg in res.rejected:
            p = [x for x in progs if x["id"] == rid][0]
            f = tvcheck.match_shape(ctx, p, None)
            if f:
                ctx.note_known(f, p["text"][:160])
            else:
                ctx.violation("program of the supported dialect rejected (%s/%s: %s): %s" % (exc, inner, (msg or "")[:80], p["text"][:200]),
                              {"kind": "rejected", "program": p})
    for u in res.unreadable:
        ctx.violation("emitted text unreadable: %s" % (u,), {"kind": "unreadable", "id": u[0]})
    # cases on which nothing was decided (every input undefined in C) are listed, never silently counted
    undecided = {}
    for rep in res.reports:
        if all(v["r"] in ("unspec", "diverged") for v in rep["v"]):
            undecided[rep["id"]] = undecided.get(rep["id"], 0) + 1
    vac = [pid for pid, n in undecided.items() if n >= res.cases[pid][1]["nin"]]
    if post:
        post(ctx, res, progs)
    cov = {
        "programs": res.programs, "accepted": res.accepted, "rejected": len(res.rejected),
        "disagreements_checked": cnt["mismatch"] + cnt["deviation"],
        "states": res.states, "transitions": res.transitions,
        "traces_validated_against_impl": res.accepted * 2,
        "evaluations": res.states // 2, "distinct_nontrivial": res.accepted - len(vac),
        "rule": rule + "; non-trivial = accepted by the compiler and decided (not undefined in C) on at least one input",
        "verdict_counts": cnt, "vacuous_programs": vac[:20],
        "samples": tvcheck.samples_of(res), "exhaustive": False,
    }
    if extra_cov:
        cov.update(extra_cov)
    return ctx.finish(level, cov, ASSUME), res
