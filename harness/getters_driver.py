#!/venv/bin/python
"""getter names / declarations of RZILInstruction for every bundled instruction (public static API + constructor)"""
import json, re, sys
from rzilcompiler.Compiler import RZILInstruction
spec = json.load(open(sys.argv[1]))   # [[name, nparts], ...]
out = []
for name, n in spec:
    ri = RZILInstruction(name, ["return NOP();"] * n, [["HEX_IL_INSN_ATTR_NONE"]] * n, [""] * n)
    g = ri.getter_rzil
    out.append({"name": name, "nparts": n, "getters": list(g["name"]), "decls": list(g["fcn_decl"]),
                "valid": all(re.match(r"^[A-Za-z_]\w*$", x) for x in g["name"])})
json.dump({"insns": out}, open(sys.argv[2], "w"))
