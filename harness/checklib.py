"""Common machinery of all checks: tiers/seeds, known findings, VIOLATION/KNOWN-FINDING lines,
replay files, evidence files (schema-validated), exit codes (0 held, 1 violation, 2 machinery)."""
import hashlib
import json
import os
import subprocess
import sys
import time
import traceback

ROOT = os.path.dirname(os.path.dirname(os.path.abspath(__file__)))
EVID = os.path.join(ROOT, "evidence")
REPLAYS = os.path.join(ROOT, "replays")
KF_FILE = os.path.join(ROOT, "known_findings.json")


class Ctx:
    def __init__(self, prop, argv=None):
        import argparse

        ap = argparse.ArgumentParser()
        ap.add_argument("--tier", default=os.environ.get("VERIF_TIER", "quick"))
        ap.add_argument("--replay", default=None)
        ap.add_argument("--seed", default=os.environ.get("VERIF_SEED", "1"))
        a = ap.parse_args(argv)
        self.prop = prop
        self.tier = a.tier if a.tier in ("quick", "thorough") else "quick"
        try:
            self.seed = int(a.seed)
        except ValueError:
            self.seed = 1
        self.replay = a.replay
        self.t0 = time.time()
        self.violations = []  # (what, replay path)
        self.known = {}  # finding id -> [count, example]
        self.kf = load_known_findings()
        self.notes = []

    # -- findings ----------------------------------------------------------------------------
    def findings_for(self, kind=None):
        return [f for f in self.kf["findings"] if self.prop in f["properties"] and (kind is None or f["kind"] == kind)]

    def devsets(self):
        """deviation sets of the listed findings of this property: singly, then jointly"""
        ds = [f["deviation"] for f in self.findings_for("deviation")]
        out = [list(d) for d in ds]
        if len(ds) > 1:
            allv = sorted({x for d in ds for x in d})
            if allv not in out:
                out.append(allv)
        return out

    def finding_by_deviation(self, dev):
        for f in self.findings_for("deviation"):
            if sorted(f["deviation"]) == sorted(dev):
                return [f]
        # joint set: attribute to every listed finding contained in it
        fs = [f for f in self.findings_for("deviation") if set(f["deviation"]) <= set(dev)]
        return fs

    def note_known(self, finding, example):
        k = finding["id"]
        if k not in self.known:
            self.known[k] = [0, example, finding]
        self.known[k][0] += 1

    def violation(self, what, replay_obj):
        os.makedirs(REPLAYS, exist_ok=True)
        h = hashlib.sha1(json.dumps(replay_obj, sort_keys=True, default=str).encode()).hexdigest()[:12]
        path = os.path.join(REPLAYS, "%s-%s.json" % (self.prop, h))
        replay_obj = dict(replay_obj)
        replay_obj["property"] = self.prop
        replay_obj["what"] = what
        replay_obj["seed"] = self.seed
        replay_obj["tier"] = self.tier
        with open(path, "w") as f:
            json.dump(replay_obj, f, indent=1, default=str)
        self.violations.append((what, path))

    # -- finish ------------------------------------------------------------------------------
    def finish(self, level, coverage, assumptions=()):
        for k, (n, ex, f) in sorted(self.known.items()):
            print("KNOWN-FINDING: property=%s %s: %s (%d cases, e.g. %s)" % (self.prop, k, f["what"], n, ex))
        seen = set()
        for what, path in self.violations:
            if path in seen:
                continue
            seen.add(path)
            print("VIOLATION property=%s replay=%s" % (self.prop, path))
            print("  " + what[:300])
        cov = dict(coverage)
        cov.setdefault("known_findings_seen", {k: v[0] for k, v in self.known.items()})
        if self.notes:
            cov.setdefault("notes", self.notes)
        ev = {
            "property_id": self.prop,
            "tier": self.tier,
            "seed": self.seed,
            "level": level,
            "coverage": cov,
            "assumptions": list(assumptions),
            "wall_s": round(time.time() - self.t0, 2),
            "violations": len(seen),
        }
        os.makedirs(EVID, exist_ok=True)
        path = os.path.join(EVID, "%s.json" % self.prop)
        with open(path, "w") as f:
            json.dump(ev, f, indent=1, default=str)
        validate_evidence(path)
        print("%s %s: %s in %.1fs (evidence %s)" % (
            self.prop, self.tier, "VIOLATED" if seen else "held", time.time() - self.t0, path))
        return 1 if seen else 0


def load_known_findings():
    if os.path.exists(KF_FILE):
        return json.load(open(KF_FILE))
    return {"findings": [], "fixed": []}


def validate_evidence(path):
    """schema validation with the tooling venv (jsonschema); a failure is a machinery failure"""
    schema = "/root/.vp/EVIDENCE.schema.json"
    if not os.path.exists(schema) or not os.path.exists("/opt/veriftools/pyvenv/bin/python"):
        return
    code = (
        "import json,sys,jsonschema;"
        "jsonschema.validate(json.load(open(sys.argv[1])), json.load(open(sys.argv[2])))"
    )
    p = subprocess.run(["/opt/veriftools/pyvenv/bin/python", "-c", code, path, schema],
                       stdout=subprocess.PIPE, stderr=subprocess.PIPE)
    if p.returncode != 0:
        raise RuntimeError("evidence file does not validate: " + p.stderr.decode()[-800:])


def main(prop, fn):
    """wrapper: exit 2 on machinery failure"""
    try:
        ctx = Ctx(prop, sys.argv[1:])
        rc = fn(ctx)
        sys.exit(rc)
    except SystemExit:
        raise
    except Exception:
        traceback.print_exc()
        print("MACHINERY-FAILURE property=%s" % prop)
        sys.exit(2)
