"""Translation-validation pipeline (DESIGN.md 4.A): source trees -> C text -> real compiler ->
emitted text -> IL terms -> TLC (spec/TV.tla) -> verdicts.

A *program* is a dict:
   id      unique string
   body    list of statement trees (cast.py)           -- the source
   kind    "stmt" (compile_c_stmt) | "insn" (transform_insn)
   text    optional: the exact text to compile (default: printed from body)
   cmpvars optional: C locals to compare (default: all declared)
   subs    optional: list of generated sub-routines to register first
"""
import json
import os
import tempfile
import time

from . import impl, tlc
from .front import cast, emitted

FORMATS = ["READ_STATEMENTS", "EXEC_CLASSES"]


def annotate_build_order(term, subs_terms, written=None):
    """Sets bnew on every READ_REG node: TRUE iff a WRITE_REG of the same operand was built earlier
    in text order (plugin model M_build).  Nodes were numbered in build order by the reader; callee
    bodies are built at the call.  Works on the inlined term: a DUP'ed pure is a copy built where
    its variable was declared, so we order by the recorded ord, not by position in the tree."""
    writes = []  # (ord, key)

    def key(rd):
        return json.dumps(rd, sort_keys=True)

    def collect(t, base):
        if t["op"] == "WRITE_REG":
            writes.append((base + (t["ord"],), key(t["reg"])))
        if t["op"] == "CALL" and t["name"] in subs_terms:
            collect(subs_terms[t["name"]]["body"], base + (t["ord"],))
        for a in t["args"]:
            collect(a, base)

    def mark(t, base):
        if t["op"] == "READ_REG":
            me = base + (t["ord"],)
            t["bnew"] = any(k == key(t["reg"]) and o < me for o, k in writes)
        for a in t["args"]:
            mark(a, base)

    collect(term, ())
    mark(term, ())
    return term


def read_artifact(text, is_subdef=False):
    r = emitted.read_emitted(text, is_subdef)
    return r


def default_false_bnew(t):
    if t["op"] == "READ_REG" and "bnew" not in t:
        t["bnew"] = False
    for a in t["args"]:
        default_false_bnew(a)


def compile_programs(programs, formats=FORMATS, repo=None, mode="pool"):
    """Runs the real compiler.  Returns {id: {fmt: step result}}.
    mode "pool": long-lived compilers (arbitrary history); "fresh": a new process and new compilers per program"""
    jobs = []
    for p in programs:
        steps = []
        if mode == "fresh":
            for fi, f in enumerate(FORMATS):
                if f in formats:
                    steps.append({"op": "new", "inst": fi, "format": f})
        for s in p.get("subs", []):
            steps.append({"op": "addsub", "inst": 0, "name": s["name"], "ret": s["ret_c"],
                          "params": s["params_c"], "body": s["body_text"]})
        text = p.get("text") or cast.program_text(p["body"])
        p["text"] = text
        for fi, f in enumerate(FORMATS):
            if f not in formats:
                continue
            if p.get("kind", "stmt") == "stmt":
                steps.append({"op": "stmt", "inst": fi, "code": text, "fmt": f})
            else:
                steps.append({"op": "insn", "inst": fi, "name": p.get("name", p["id"]), "behaviors": [text], "fmt": f})
        jobs.append({"id": p["id"], "steps": steps})
    res = impl.run_jobs(jobs, repo=repo, mode=mode)
    out = {}
    for p in programs:
        r = res[p["id"]]
        if r.get("harness_error"):
            raise impl.ImplError(r["harness_error"])
        if mode == "fresh":
            r["res"] = r["res"][len([f for f in FORMATS if f in formats]):]
        nsub = len(p.get("subs", []))
        d = {"subs": r["res"][:nsub]}
        i = nsub
        for f in FORMATS:
            if f not in formats:
                continue
            d[f] = r["res"][i]
            i += 1
        out[p["id"]] = d
    return out


def build_case(p, comp, subs_terms):
    """-> (case dict or None, status) ; status in accepted/rejected/unreadable"""
    obs = []
    events = {}
    oks = {f: comp[f]["ok"] for f in FORMATS if f in comp}
    if len(set(oks.values())) > 1:
        # C16: the two layouts must agree on acceptance
        bad = [f for f in oks if not oks[f]][0]
        return None, ("unreadable", "layouts", "accepted in one layout and rejected in the other (%s: %s/%s %s)" % (
            bad, comp[bad].get("exc"), comp[bad].get("inner"), (comp[bad].get("msg") or "")[:80]))
    for f in FORMATS:
        if f not in comp:
            continue
        r = comp[f]
        if not r["ok"]:
            return None, ("rejected", r.get("exc"), r.get("inner"), r.get("msg"))
        text = r["text"] if "text" in r else r["rzil"][0]
        try:
            a = read_artifact(text)
        except emitted.EmittedFormatError as ex:
            return None, ("unreadable", f, str(ex))
        term = annotate_build_order(a["term"], subs_terms)
        default_false_bnew(term)
        amb = ["bundle", "pkt", "hi"]
        if "needs_hi" in r:
            amb = ["bundle"] + (["hi"] if r["needs_hi"][0] else []) + (["pkt"] if r["needs_pkt"][0] else [])
        o = {"fmt": f, "term": term, "events": a["events"], "ambient": amb}
        if "meta" in r:
            o["meta"] = r["meta"][0]
        obs.append(o)
        events[f] = a["events"]
    regs, imms = cast.resources(p["body"])
    case = {
        "id": p["id"],
        "src": {"kind": "insn", "body": p["body"], "params": [], "void": True, "ret": cast.T(False, 64)},
        "regs": regs,
        "imms": imms,
        "obs": obs,
        "cmpvars": p.get("cmpvars", cast.declared_vars(p["body"])),
        "attr_body": p["body"], "noped": False,
    }
    return case, ("accepted", events)


KNOWN_IDS = ["true", "false", "IL_TRUE", "IL_FALSE", "HEX_RF_WIDTH", "HEX_RF_OFFSET", "RZ_FLOAT_IEEE754_BIN_32", "RZ_FLOAT_IEEE754_BIN_64"]
IL_CALLEES = sorted(emitted.PURE_SIMPLE | emitted.EFFECT_SIMPLE | {
    "SN", "UN", "U32", "CAST", "UNSIGNED", "SIGNED", "INC", "DEC", "VARL", "VARLP", "SETL", "LET", "LOADW", "SEQN",
    "READ_REG", "WRITE_REG", "ISA2REG", "ISA2IMM", "EXPLICIT2OP", "ALIAS2OP", "NREG2OP", "DUP",
    "HEX_STORE_SLOT_CANCELLED", "HEX_REGFIELD", "HEX_GET_CORRESPONDING_CS", "HEX_GET_NPC", "HEX_GET_INSN_RMODE",
    "HEX_SETROUND", "BV2F", "HEX_INT_TO_D", "HEX_INT_TO_F", "HEX_SINT_TO_D", "HEX_SINT_TO_F", "HEX_D_TO_INT",
    "HEX_F_TO_INT", "HEX_D_TO_SINT", "HEX_F_TO_SINT", "FADD", "FSUB", "FMUL", "FDIV"})


def dump_tv(path, cases, il_subs, c_subs, devsets, extra_known=(), extra_allowed=()):
    known = list(KNOWN_IDS) + list(extra_known)
    allowed = list(IL_CALLEES) + ["hex_" + n for n in (il_subs or {})] + list(extra_allowed)
    json.dump({"cases": cases, "subs": il_subs or {"_": {"params": [], "body": {"op": "NOP", "args": []}}},
               "csubs": c_subs or {"_": {"params": [], "ret": cast.T(False, 32), "void": True, "body": []}},
               "devsets": devsets, "known": known, "allowed": allowed}, open(path, "w"))


BATCH = 1500   # cases per TLC run: JsonDeserialize of the observation file is single-threaded, so huge files starve the workers


def run_tv(cases, il_subs, c_subs, devsets, ninputs, seed, workers=None, timeout=3600, static=True):
    """Runs spec/TV.tla (and spec/Static.tla) over the cases, in batches.  Returns (tv result, static result)"""
    import shutil
    rs, ss = [], []
    for b in range(0, max(1, len(cases)), BATCH):
        chunk = cases[b:b + BATCH]
        d = tempfile.mkdtemp(prefix="verif_tv_")
        try:
            f = os.path.join(d, "tv.json")
            dump_tv(f, chunk, il_subs, c_subs, devsets)
            rs.append(tlc.run("TV.tla", "TV.cfg", env={"TV_FILE": f, "TV_SEED": seed, "TV_NB": ninputs},
                              workers=workers, timeout=timeout, tags=("TVREPORT",)))
            if static:
                ss.append(tlc.run("Static.tla", "Static.cfg", env={"TV_FILE": f}, workers=workers, timeout=timeout,
                                  tags=("STREPORT",)))
        finally:
            shutil.rmtree(d, ignore_errors=True)
    return tlc.merge(rs), (tlc.merge(ss) if static else None)
