"""Projection of a Lark parse tree (as produced by the repository's grammar) to the CSem syntax.
The projection follows the tree *structure* (rule names -> constructors); it never re-derives precedence
or associativity.  canon() strips both kinds of trees (generated / independently parsed / projected) to
the fields that define the structure, so that they can be compared for equality."""
import re

from . import cast

BIN_RULES = {"additive_expr", "multiplicative_expr", "shift_expr", "relational_expr", "equality_expr", "and_expr",
             "exclusive_or_expr", "inclusive_or_expr", "logical_and_expr", "logical_or_expr"}


class ProjError(Exception):
    pass


def is_tree(x):
    return hasattr(x, "data") and hasattr(x, "children")


def tok(x):
    return str(x)


def type_from(children):
    """children: type_specifier trees / tokens -> type dict"""
    words = []
    for c in children:
        if is_tree(c):
            if c.data == "type_specifier":
                ch = c.children
                if len(ch) == 1 and is_tree(ch[0]):
                    t = ch[0]
                    if t.data == "c_int_type":
                        words.append("%s%s_t" % (tok(t.children[0]), tok(t.children[1])))
                    elif t.data == "c_size_type":
                        words.append("size%s%s_t" % (tok(t.children[0]), tok(t.children[1])))
                    else:
                        raise ProjError("type %s" % t.data)
                else:
                    words.extend(tok(x) for x in ch)
            elif c.data in ("declaration_specifiers", "specifier_qualifier_list"):
                inner = type_from(c.children)
                words.extend(inner["words"])
            else:
                raise ProjError("type node %s" % c.data)
        else:
            words.append(tok(c))
    from .cparse import Parser
    return Parser.type_from_words(words)


def expr(t):
    if not is_tree(t):
        # bare token
        s = tok(t)
        if getattr(t, "type", "") == "ESCAPED_STRING":
            return {"k": "str", "s": s[1:-1]}
        raise ProjError("bare token %r" % s)
    d = t.data
    ch = t.children
    if d in BIN_RULES:
        return cast.bin_(tok(ch[1]), expr(ch[0]), expr(ch[2]))
    if d == "conditional_expr":
        return cast.cond(expr(ch[0]), expr(ch[1]), expr(ch[2]))
    if d == "assignment_expr":
        return cast.assign(expr(ch[0]), expr(ch[2]), tok(ch[1]))
    if d == "cast_expr":
        return cast.cast(type_from(ch[:-1]), expr(ch[-1]))
    if d == "unary_expr":
        o = tok(ch[0])
        if o == "sizeof":
            if len(ch) == 2 and is_tree(ch[1]) and ch[1].data not in ("type_specifier", "specifier_qualifier_list"):
                return {"k": "sizeof", "a": expr(ch[1])}
            return {"k": "sizeof_type", "t": type_from(ch[1:])}
        if o in ("++", "--"):
            return {"k": "prefix", "o": o, "a": expr(ch[1])}
        o = o.strip()
        if o in ("-", "+", "~", "!"):
            return cast.un(o, expr(ch[1]))
        if o == "*":
            return {"k": "deref", "a": expr(ch[1])}
        if "&" in o:
            return {"k": "addr", "a": expr(ch[1]), "raw": o}
        raise ProjError("unary %r" % o)
    if d == "postfix_expr":
        if len(ch) == 2 and not is_tree(ch[1]):
            o = tok(ch[1])
            if o in ("++", "--"):
                return cast.postfix(o, expr(ch[0]))
            ty = getattr(ch[1], "type", "")
            if ty == "IDENTIFIER":
                return {"k": "member", "o": "?", "a": expr(ch[0]), "m": o}
        if len(ch) == 3 and not is_tree(ch[1]) and tok(ch[1]) == "->":
            return {"k": "member", "o": "->", "a": expr(ch[0]), "m": tok(ch[2])}
        if len(ch) == 2 and is_tree(ch[1]):
            return {"k": "index", "a": expr(ch[0]), "i": expr(ch[1])}
        if len(ch) == 1:
            return {"k": "callexpr", "f": expr(ch[0]), "args": []}
        raise ProjError("postfix form %s" % [getattr(c, "data", tok(c)) for c in ch])
    if d == "identifier":
        return cast.var(tok(ch[0]))
    if d in ("reg", "new_reg"):
        acc = tok(ch[1])
        return cast.reg(tok(ch[0]), acc[0], pair=len(acc) == 2, new=(d == "new_reg"))
    if d == "explicit_reg":
        m = re.match(r"^([A-Z])(\d+)(?::(\d+))?$", tok(ch[0]))
        if not m:
            raise ProjError("explicit reg %r" % tok(ch[0]))
        if m.group(3) is not None:
            r = cast.xreg(m.group(1), int(m.group(3)), pair=True, new=ch[1] is not None, n2=int(m.group(2)))
        else:
            r = cast.xreg(m.group(1), int(m.group(2)), new=ch[1] is not None)
        return r
    if d == "reg_alias":
        return cast.alias(tok(ch[0]), ch[1] is not None)
    if d == "imm":
        return cast.imm(tok(ch[0]))
    if d == "number":
        t0 = ch[0]
        s = tok(t0)
        sfx = tok(ch[1]) if len(ch) > 1 and ch[1] is not None else ""
        base = "hex" if s[:2].lower() == "0x" else "dec"
        digits = s[2:] if base == "hex" else s.replace("_", "")
        return cast.num(int(digits or "0", 16 if base == "hex" else 10), base, sfx)
    if d == "float_number":
        return {"k": "fnum", "text": tok(ch[0])}
    if d == "mem_load":
        args = [expr(x) for x in ch[3:]]
        if len(args) != 1:
            raise ProjError("mem_load arity")
        return cast.load(tok(ch[1]) == "s", int(tok(ch[2])), args[0])
    if d == "macro_expr":
        return cast.call(tok(ch[0]), [expr(x) for x in ch[1:] if x is not None])
    if d == "sub_routine":
        f = expr(ch[0])
        args = [expr(x) for x in ch[1:] if x is not None]
        if f["k"] == "var":
            if f["n"] == "sizeof" and len(args) == 1:
                return {"k": "sizeof", "a": args[0]}
            return cast.call(f["n"], args)
        return {"k": "callexpr", "f": f, "args": args}
    if d == "expr":
        return {"k": "comma", "a": expr(ch[0]), "b": expr(ch[1])}
    if d == "gcc_extended_expr":
        items = []
        for c in ch:
            if c is None:
                continue
            items.extend(stmts_of(c))
        if items and items[-1]["k"] == "expr":
            return cast.stmtexpr(items[:-1], items[-1]["e"])
        return {"k": "stmtexpr_void", "body": items}
    raise ProjError("expression rule %s" % d)


EXPR_RULES = BIN_RULES | {"conditional_expr", "assignment_expr", "cast_expr", "unary_expr", "postfix_expr", "identifier", "reg",
                          "new_reg", "explicit_reg", "reg_alias", "imm", "number", "float_number", "mem_load", "macro_expr",
                          "sub_routine", "expr", "gcc_extended_expr"}


def stmts_of(t):
    """a node used as a statement list (block_item_list or a single statement) -> list of statements"""
    if is_tree(t) and t.data == "block_item_list":
        out = []
        for c in t.children:
            out.extend(stmts_of(c) if (is_tree(c) and c.data == "block_item_list") else [stmt(c)])
        return out
    return [stmt(t)]


def body_of(t):
    s = stmts_of(t)
    if len(s) == 1 and s[0]["k"] == "block":
        return s[0]["b"]
    return s


def stmt(t):
    if not is_tree(t):
        raise ProjError("statement token %r" % tok(t))
    d = t.data
    ch = t.children
    if d == "block_item":
        c = ch[0]
        if is_tree(c) and c.data == "block_item_list":
            return cast.block(stmts_of(c))
        return stmt(c)
    if d == "block_item_list":
        return cast.block(stmts_of(t))
    if d == "compound_stmt":
        return cast.block([])
    if d == "expr_stmt":
        return {"k": "empty"}
    if d == "declaration":
        last = ch[-1]
        ty = type_from(ch[:-1])
        if is_tree(last) and last.data == "init_declarator":
            return cast.decl(ty, tok(last.children[0]), expr(last.children[1]))
        if is_tree(last) and last.data == "init_declarator_list":
            items = []
            for x in last.children:
                if is_tree(x) and x.data == "init_declarator":
                    items.append(cast.decl(dict(ty), tok(x.children[0]), expr(x.children[1])))
                else:
                    items.append(cast.decl(dict(ty), tok(x), None))
            return {"k": "decls", "items": items}
        if not is_tree(last):
            return cast.decl(ty, tok(last), None)
        raise ProjError("declaration form")
    if d == "selection_stmt":
        kw = tok(ch[0])
        if kw == "if":
            c = expr(ch[1])
            th = body_of(ch[2])
            if len(ch) > 3:
                return cast.if_(c, th, body_of(ch[4]))
            return cast.if_(c, th)
        if kw == "switch":
            return {"k": "switch", "c": expr(ch[1]), "body": body_of(ch[2])}
        raise ProjError("selection %s" % kw)
    if d == "iteration_stmt":
        kw = tok(ch[0])
        if kw == "for":
            parts = ch[1:]
            body = parts[-1]
            head = parts[:-1]

            def es(x):
                if is_tree(x) and x.data == "expr_stmt":
                    return None
                return x

            init = head[0]
            if is_tree(init) and init.data == "declaration":
                i = stmt(init)
            else:
                i = cast.expr(expr(init)) if es(init) is not None else None
            c = expr(head[1]) if es(head[1]) is not None else None
            st = expr(head[2]) if len(head) > 2 else None
            return cast.for_(i, c, st, body_of(body))
        if kw == "while":
            return {"k": "while", "c": expr(ch[1]), "body": body_of(ch[2])}
        if kw == "do":
            return {"k": "do", "c": expr(ch[3]), "body": body_of(ch[1])}
        raise ProjError("iteration %s" % kw)
    if d == "jump_stmt":
        c0 = ch[0]
        if is_tree(c0) and c0.data == "jump":
            j = c0.children
            if is_tree(j[0]) and j[0].data == "nop":
                return {"k": "nop"}
            return cast.jump(expr(j[1]))
        kw = tok(c0)
        if kw == "return":
            return cast.ret(expr(ch[1])) if len(ch) > 1 else cast.ret()
        if kw == "goto":
            return {"k": "goto", "n": tok(ch[1])}
        if kw in ("break", "continue"):
            return {"k": kw}
        raise ProjError("jump_stmt %s" % kw)
    if d == "mem_store":
        args = [expr(x) for x in ch[3:]]
        if len(args) != 2:
            raise ProjError("mem_store arity")
        return cast.store(tok(ch[1]) == "s", int(tok(ch[2])), args[0], args[1])
    if d == "cancel_slot_stmt":
        return {"k": "cancel"}
    if d == "labeled_stmt":
        kw = tok(ch[0])
        if kw == "case":
            return {"k": "case", "c": expr(ch[1]), "s": stmt(ch[2])}
        if kw == "default":
            return {"k": "default", "s": stmt(ch[1])}
        return {"k": "label", "n": kw, "s": stmt(ch[1])}
    if d in EXPR_RULES:
        return cast.expr(expr(t))
    raise ProjError("statement rule %s" % d)


def project(tree):
    """fbody tree -> list of statements (same convention as cparse.parse_body)"""
    if tree.data != "fbody":
        raise ProjError("root %s" % tree.data)
    items = []
    for c in tree.children:
        items.extend(stmts_of(c) if not (is_tree(c) and c.data == "block_item_list") else [cast.block(stmts_of(c))])
    if len(items) == 1 and items[0]["k"] == "block":
        return items[0]["b"]
    return items


# ----------------------------------------------------------------------------------------------
KEEP = {
    "num": ("v", "base", "suffix"), "var": ("n",), "reg": ("kind", "rt", "acc", "pair", "new", "num", "num2", "alias"),
    "imm": ("l",), "un": ("o", "a"), "bin": ("o", "a", "b"), "cond": ("c", "a", "b"), "cast": ("t", "a"),
    "assign": ("o", "l", "r"), "postfix": ("o", "a"), "prefix": ("o", "a"), "load": ("s", "w", "a"), "sizeof": ("a",),
    "sizeof_type": ("t",), "comma": ("a", "b"), "stmtexpr": ("body", "e"), "stmtexpr_void": ("body",), "call": ("f", "args"),
    "callexpr": ("f", "args"), "index": ("a", "i"), "member": ("a", "m"), "deref": ("a",), "addr": ("a",), "str": ("s",),
    "fnum": ("text",),
    "decl": ("t", "n", "init"), "decls": ("items",), "decl_empty": ("t",), "expr": ("e",), "empty": (), "nop": (), "cancel": (),
    "block": ("b",), "if": ("c", "t", "e", "has_else"), "for": ("init", "c", "step", "body"), "while": ("c", "body"),
    "do": ("c", "body"), "break": (), "continue": (), "return": ("e",), "store": ("s", "w", "a", "v"), "jump": ("a",),
    "goto": ("n",), "label": ("n", "s"), "switch": ("c", "body"), "case": ("c", "s"), "default": ("s",), "none": (),
}


def _flat(lst):
    out = []
    for y in lst:
        if isinstance(y, dict) and y.get("k") == "empty":
            continue
        if isinstance(y, dict) and y.get("k") == "block":
            out.extend(_flat(y.get("b", [])))
        else:
            out.append(y)
    return out


def canon(x):
    """structure-defining fields only; in statement lists empty statements are dropped and plain nested blocks
    dissolved (the grammar absorbs an optional ';' after a block, C makes it an empty statement)"""
    if isinstance(x, list):
        if any(isinstance(y, dict) and y.get("k") in ("empty", "block") for y in x):
            x = _flat(x)
        return [canon(y) for y in x]
    if isinstance(x, dict):
        if "k" in x:
            k = x["k"]
            out = {"k": k}
            for f in KEEP.get(k, tuple(sorted(x))):
                if f in x and x[f] is not None:
                    out[f] = canon(x[f])
            if k == "if":
                out["has_else"] = bool(x.get("has_else", bool(x.get("e"))))
            if k == "num":
                out["suffix"] = str(x.get("suffix", "")).upper()
            if k == "member":
                out.pop("o", None)
            return out
        if "s" in x and "w" in x:  # a type
            t = {"s": bool(x["s"]), "w": int(x["w"])}
            if x.get("nonint"):
                t["nonint"] = x["nonint"]
            if x.get("ptr"):
                t["ptr"] = x["ptr"]
            # (the const qualifier is not part of the structure C17 speaks about and the projection of declaration
            # specifiers does not carry it)
            return t
        return {k: canon(v) for k, v in x.items()}
    return x
