"""Independent recursive-descent parser of the shortcode dialect of C (no Lark, no shared grammar).

parse_body(text) -> list of statement trees in the CSem.tla syntax (see cast.py).
Constructs the dialect's semantics does not cover (member access, arrays, goto, ...) are parsed
into their own node kinds so that the specification can decide whether they are in the dialect.
ParseError means: not C at all (as far as this parser knows C)."""
import re

from . import cast


class ParseError(Exception):
    pass


TOKEN = re.compile(
    r"""\s*(?:
      (?P<num>0[xX][0-9a-fA-F]*|\d[\d_]*(?:\.\d+)?)
    | (?P<id>[A-Za-z_]\w*)
    | (?P<str>"(?:[^"\\]|\\.)*")
    | (?P<op>>>=|<<=|\+=|-=|\*=|/=|%=|&=|\^=|\|=|>>|<<|\+\+|--|->|&&|\|\||<=|>=|==|!=|\.\.\.|[-+*/%&|^~!<>=?:;,.(){}\[\]])
    )""",
    re.X,
)

ASSIGN_OPS = {"=", "+=", "-=", "*=", "/=", "%=", "&=", "^=", "|=", "<<=", ">>="}
BINPREC = [
    ["||"], ["&&"], ["|"], ["^"], ["&"], ["==", "!="], ["<", ">", "<=", ">="], ["<<", ">>"], ["+", "-"],
    ["*", "/", "%"],
]
TYPE_KEYWORDS = {"int", "unsigned", "signed", "long", "short", "char", "float", "double", "void", "_Bool", "bool"}
QUALIFIERS = {"const", "volatile", "static", "register", "extern", "auto", "restrict", "inline"}
KEYWORDS = {"if", "else", "for", "while", "do", "switch", "case", "default", "break", "continue", "return", "goto",
            "sizeof"}
RE_INT_T = re.compile(r"^(u?)int(\d+)_t$")
RE_SIZE_T = re.compile(r"^size(\d+)([su])_t$")
RE_REG = re.compile(r"^([CNPRMQVO])(ss|tt|uu|vv|dd|xx|yy|[stuvwdexyz])([VN])$")
RE_IMM = re.compile(r"^([rRsSuUmn])iV$")
RE_EXPLICIT = re.compile(r"^([RCPVQMGS])(3[01]|[12][0-9]|[0-9])(_NEW)?$")
RE_ALIAS = re.compile(r"^HEX_REG_ALIAS_([A-Z0-9]+?)(_NEW)?$")
RE_LOAD = re.compile(r"^mem_load_([su])(1|2|4|8|16|32|64)$")
RE_STORE = re.compile(r"^mem_store_([su])(1|2|4|8|16|32|64)$")


def tokenize(text):
    toks = []
    pos = 0
    n = len(text)
    while pos < n:
        if text[pos:].strip() == "":
            break
        m = TOKEN.match(text, pos)
        if not m:
            raise ParseError("illegal character at %r" % text[pos:pos + 20])
        pos = m.end()
        for k in ("num", "id", "str", "op"):
            v = m.group(k)
            if v is not None:
                toks.append((k, v))
                break
    return toks


def is_type_name(tok):
    k, v = tok
    if k != "id":
        return False
    return v in TYPE_KEYWORDS or v in QUALIFIERS or bool(RE_INT_T.match(v)) or bool(RE_SIZE_T.match(v))


def classify_identifier(v):
    """-> node for an identifier used as an operand (documented token classes)"""
    m = RE_ALIAS.match(v)
    if m:
        return cast.alias(m.group(1), bool(m.group(2)))
    m = RE_REG.match(v)
    if m:
        acc = m.group(2)
        return cast.reg(m.group(1), acc[0], pair=len(acc) == 2, new=m.group(3) == "N")
    m = RE_IMM.match(v)
    if m:
        return cast.imm(m.group(1))
    m = RE_EXPLICIT.match(v)
    if m:
        return cast.xreg(m.group(1), int(m.group(2)), new=bool(m.group(3)))
    return cast.var(v)


class Parser:
    def __init__(self, text):
        self.t = tokenize(text)
        self.i = 0

    # -- helpers
    def peek(self, k=0):
        j = self.i + k
        return self.t[j] if j < len(self.t) else (None, None)

    def at(self, v, k=0):
        return self.peek(k)[1] == v and self.peek(k)[0] in ("op", "id")

    def eat(self, v=None):
        k, x = self.peek()
        if k is None:
            raise ParseError("unexpected end of input")
        if v is not None and x != v:
            raise ParseError("expected %r, got %r" % (v, x))
        self.i += 1
        return x

    # -- types
    def type_name(self):
        """sequence of specifiers/qualifiers -> type dict {s, w} (+name for non-integer types)"""
        words = []
        while is_type_name(self.peek()):
            words.append(self.eat())
        ptr = 0
        while self.at("*"):
            self.eat()
            ptr += 1
        return self.type_from_words(words, ptr)

    @staticmethod
    def type_from_words(words, ptr=0):
        quals = [w for w in words if w in QUALIFIERS]
        ws = [w for w in words if w not in QUALIFIERS]
        t = None
        if len(ws) == 1:
            m = RE_INT_T.match(ws[0])
            if m:
                t = cast.T(m.group(1) != "u", int(m.group(2)))
            m = RE_SIZE_T.match(ws[0])
            if m:
                t = cast.T(m.group(2) == "s", 8 * int(m.group(1)))
        if t is None:
            key = " ".join(ws)
            table = {
                "int": (True, 32), "signed": (True, 32), "signed int": (True, 32),
                "unsigned": (False, 32), "unsigned int": (False, 32),
                "long": (True, 64), "long int": (True, 64), "long long": (True, 64), "long long int": (True, 64),
                "unsigned long": (False, 64), "unsigned long long": (False, 64), "unsigned long int": (False, 64),
                "short": (True, 16), "short int": (True, 16), "unsigned short": (False, 16),
                "char": (True, 8), "signed char": (True, 8), "unsigned char": (False, 8),
            }
            if key in table:
                t = cast.T(*table[key])
            elif key in ("float", "double", "void", "bool", "_Bool"):
                t = {"s": True, "w": {"float": 32, "double": 64, "void": 0, "bool": 1, "_Bool": 1}[key], "name": key,
                     "nonint": key}
            else:
                raise ParseError("unknown type %r" % key)
        t = dict(t)
        t["words"] = ws
        if "const" in quals:
            t["const"] = True
        if ptr:
            t["ptr"] = ptr
        t.setdefault("name", " ".join(ws))
        return t

    # -- expressions
    def expr(self):
        e = self.assignment()
        while self.at(","):
            self.eat()
            e = {"k": "comma", "a": e, "b": self.assignment()}
        return e

    def assignment(self):
        start = self.i
        lhs = self.conditional()
        k, v = self.peek()
        if k == "op" and v in ASSIGN_OPS:
            self.eat()
            rhs = self.assignment()
            return cast.assign(lhs, rhs, v)
        return lhs

    def conditional(self):
        c = self.binary(0)
        if self.at("?"):
            self.eat()
            a = self.expr()
            self.eat(":")
            b = self.conditional()
            return cast.cond(c, a, b)
        return c

    def binary(self, lvl):
        if lvl == len(BINPREC):
            return self.cast_expr()
        e = self.binary(lvl + 1)
        while self.peek()[0] == "op" and self.peek()[1] in BINPREC[lvl]:
            o = self.eat()
            r = self.binary(lvl + 1)
            e = cast.bin_(o, e, r)
        return e

    def cast_expr(self):
        if self.at("(") and is_type_name(self.peek(1)):
            self.eat("(")
            t = self.type_name()
            self.eat(")")
            if self.at("{"):
                raise ParseError("compound literal")
            return cast.cast(t, self.cast_expr())
        return self.unary()

    def unary(self):
        k, v = self.peek()
        if k == "op" and v in ("++", "--"):
            self.eat()
            return {"k": "prefix", "o": v, "a": self.unary()}
        if k == "op" and v in ("-", "+", "~", "!"):
            self.eat()
            return cast.un(v, self.cast_expr())
        if k == "op" and v in ("*", "&"):
            self.eat()
            return {"k": "deref" if v == "*" else "addr", "a": self.cast_expr()}
        if k == "id" and v == "sizeof":
            self.eat()
            if self.at("(") and is_type_name(self.peek(1)):
                self.eat("(")
                t = self.type_name()
                self.eat(")")
                return {"k": "sizeof_type", "t": t}
            return {"k": "sizeof", "a": self.unary()}
        return self.postfix()

    def postfix(self):
        e = self.primary()
        while True:
            k, v = self.peek()
            if k != "op":
                break
            if v == "[":
                self.eat()
                i = self.expr()
                self.eat("]")
                e = {"k": "index", "a": e, "i": i}
            elif v == "(":
                self.eat()
                args = []
                if not self.at(")"):
                    args.append(self.assignment())
                    while self.at(","):
                        self.eat()
                        args.append(self.assignment())
                self.eat(")")
                e = self.make_call(e, args)
            elif v in (".", "->"):
                self.eat()
                e = {"k": "member", "o": v, "a": e, "m": self.eat()}
            elif v in ("++", "--"):
                self.eat()
                e = cast.postfix(v, e)
            else:
                break
        return e

    @staticmethod
    def make_call(f, args):
        if f.get("k") != "var":
            return {"k": "callexpr", "f": f, "args": args}
        name = f["n"]
        m = RE_LOAD.match(name)
        if m and len(args) == 1:
            return cast.load(m.group(1) == "s", int(m.group(2)), args[0])
        if name == "sizeof" and len(args) == 1:
            return {"k": "sizeof", "a": args[0]}
        return cast.call(name, args)

    def primary(self):
        k, v = self.peek()
        if k == "num":
            self.eat()
            if "." in v:
                return {"k": "fnum", "text": v}
            suffix = ""
            k2, v2 = self.peek()
            if k2 == "id" and v2 in ("LL", "ULL", "U", "u", "ull", "ll"):
                # the tokenizer splits 5ULL into num + id only if separated; normally attached
                pass
            base = "hex" if v[:2].lower() == "0x" else "dec"
            digits = v[2:] if base == "hex" else v.replace("_", "")
            val = int(digits or "0", 16 if base == "hex" else 10)
            return cast.num(val, base, suffix)
        if k == "str":
            self.eat()
            return {"k": "str", "s": v[1:-1]}
        if k == "id":
            if v in KEYWORDS:
                raise ParseError("keyword %s in expression" % v)
            self.eat()
            return classify_identifier(v)
        if k == "op" and v == "(":
            self.eat()
            if self.at("{"):
                se = self.stmt_expr()
                self.eat(")")
                return se
            e = self.expr()
            self.eat(")")
            return e
        raise ParseError("unexpected token %r" % (v,))

    def stmt_expr(self):
        """'{' block-items expr ';' '}'  ->  stmtexpr(body, e)"""
        self.eat("{")
        items = []
        while not self.at("}"):
            items.append(self.block_item())
        self.eat("}")
        if not items:
            raise ParseError("empty statement expression")
        last = items[-1]
        if last["k"] == "expr":
            return cast.stmtexpr(items[:-1], last["e"])
        return {"k": "stmtexpr_void", "body": items}

    # -- statements
    def block_item(self):
        if is_type_name(self.peek()):
            return self.declaration()
        return self.stmt()

    def declaration(self):
        t = self.type_name()
        if self.at(";"):
            self.eat()
            return {"k": "decl_empty", "t": t}
        out = []
        while True:
            ptr = 0
            while self.at("*"):
                self.eat()
                ptr += 1
            k, name = self.peek()
            if k != "id":
                raise ParseError("declarator expected, got %r" % (name,))
            self.eat()
            if self.at("["):
                raise ParseError("array declarator")
            init = None
            if self.at("="):
                self.eat()
                if self.at("{"):
                    raise ParseError("initializer list")
                init = self.assignment()
            tt = dict(t)
            if ptr:
                tt["ptr"] = ptr
            out.append(cast.decl(tt, name, init))
            if self.at(","):
                self.eat()
                continue
            break
        self.eat(";")
        if len(out) == 1:
            return out[0]
        return {"k": "decls", "items": out}

    def block(self):
        self.eat("{")
        items = []
        while not self.at("}"):
            items.append(self.block_item())
        self.eat("}")
        return items

    def body_of(self):
        """statement used as a body -> list of statements"""
        s = self.stmt()
        if s["k"] == "block":
            return s["b"]
        return [s]

    def stmt(self):
        k, v = self.peek()
        if k == "op" and v == "{":
            b = self.block()
            if self.at(";") and False:
                self.eat()
            return cast.block(b)
        if k == "op" and v == ";":
            self.eat()
            return {"k": "empty"}
        if k == "id":
            if v == "if":
                self.eat()
                self.eat("(")
                c = self.expr_or_stmtexpr()
                self.eat(")")
                t = self.body_of()
                if self.at("else"):
                    self.eat()
                    e = self.body_of()
                    return cast.if_(c, t, e)
                return cast.if_(c, t)
            if v == "for":
                self.eat()
                self.eat("(")
                if is_type_name(self.peek()):
                    init = self.declaration()
                elif self.at(";"):
                    self.eat()
                    init = None
                else:
                    init = cast.expr(self.expr())
                    self.eat(";")
                c = None if self.at(";") else self.expr()
                self.eat(";")
                step = None if self.at(")") else self.expr()
                self.eat(")")
                body = self.body_of()
                return cast.for_(init, c, step, body)
            if v == "while":
                self.eat()
                self.eat("(")
                c = self.expr()
                self.eat(")")
                return {"k": "while", "c": c, "body": self.body_of()}
            if v == "do":
                self.eat()
                body = self.body_of()
                self.eat("while")
                self.eat("(")
                c = self.expr()
                self.eat(")")
                self.eat(";")
                return {"k": "do", "c": c, "body": body}
            if v == "switch":
                self.eat()
                self.eat("(")
                c = self.expr()
                self.eat(")")
                return {"k": "switch", "c": c, "body": self.body_of()}
            if v == "case":
                self.eat()
                c = self.conditional()
                self.eat(":")
                return {"k": "case", "c": c, "s": self.stmt()}
            if v == "default":
                self.eat()
                self.eat(":")
                return {"k": "default", "s": self.stmt()}
            if v == "break":
                self.eat()
                self.eat(";")
                return {"k": "break"}
            if v == "continue":
                self.eat()
                self.eat(";")
                return {"k": "continue"}
            if v == "goto":
                self.eat()
                n = self.eat()
                self.eat(";")
                return {"k": "goto", "n": n}
            if v == "return":
                self.eat()
                if self.at(";"):
                    self.eat()
                    return cast.ret()
                e = self.expr()
                self.eat(";")
                return cast.ret(e)
            if v == "JUMP" and self.at("(", 1):
                self.eat()
                self.eat("(")
                e = self.expr()
                self.eat(")")
                return cast.jump(e)  # no ';' : the following ';' is an empty statement
            if v == "__NOP":
                self.eat()
                return {"k": "nop"}
            if v == "cancel_slot":
                self.eat()
                self.eat(";")
                return {"k": "cancel"}
            m = RE_STORE.match(v)
            if m and self.at("(", 1):
                self.eat()
                self.eat("(")
                a = self.assignment()
                self.eat(",")
                val = self.assignment()
                self.eat(")")
                self.eat(";")
                return cast.store(m.group(1) == "s", int(m.group(2)), a, val)
            if self.at(":", 1) and v not in KEYWORDS:
                self.eat()
                self.eat(":")
                return {"k": "label", "n": v, "s": self.stmt()}
        e = self.expr()
        self.eat(";")
        return cast.expr(e)

    def expr_or_stmtexpr(self):
        return self.expr()


# the tokenizer keeps integer suffixes attached to identifiers? no: handle "5ULL" by a pre-pass
SUFFIX = re.compile(r"\b(0[xX][0-9a-fA-F]*|\d[\d_]*)(ULL|ull|LL|ll|U|u)\b")


def parse_body(text):
    """'{ ... }' -> list of statements"""
    marks = []

    def repl(m):
        marks.append(m.group(2))
        return m.group(1) + " __SFX%d__ " % (len(marks) - 1)

    text2 = SUFFIX.sub(repl, text)
    p = Parser(text2)
    # re-attach suffixes
    toks = []
    for k, v in p.t:
        mm = re.match(r"^__SFX(\d+)__$", v) if k == "id" else None
        if mm and toks and toks[-1][0] == "num":
            toks[-1] = ("num+", (toks[-1][1], marks[int(mm.group(1))]))
        else:
            toks.append((k, v))
    p.t = toks
    _orig_primary = p.primary

    def primary():
        k, v = p.peek()
        if k == "num+":
            p.i += 1
            txt, sfx = v
            base = "hex" if txt[:2].lower() == "0x" else "dec"
            digits = txt[2:] if base == "hex" else txt.replace("_", "")
            return cast.num(int(digits or "0", 16 if base == "hex" else 10), base, sfx)
        return _orig_primary()

    p.primary = primary
    # fbody: stmt*   (usually one compound statement)
    items = []
    while p.i < len(p.t):
        items.append(p.block_item())
    if len(items) == 1 and items[0]["k"] == "block":
        return items[0]["b"]
    return items
