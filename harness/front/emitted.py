"""Reader of the C text emitted by rzil-compiler (projection function, DESIGN 4.A).

It understands C *syntax* (declarations with initialiser, call expressions, a final return),
not the golden layout: names, comments, blank lines and temp numbering are irrelevant to it.

    parse_body(text)   -> Body   (declarations in order, return expression)
    body_events(body)  -> list of EmitC events (for spec/EmitC.tla)
    body_term(body)    -> IL effect term with all C variables inlined and DUP erased
    parse_subdef(text) -> (name, params, Body)

Terms are JSON-able dicts: {"op": NAME, "args": [...], ...attributes}.
"""
import json
import re

TOK = re.compile(
    r"""\s*(?:
      (?P<id>[A-Za-z_]\w*)
    | (?P<num>0[xX][0-9a-fA-F]+|\d+)
    | (?P<str>"(?:[^"\\]|\\.)*")
    | (?P<chr>'(?:[^'\\]|\\.)*')
    | (?P<arrow>->)
    | (?P<p>[()\[\]{},;=*&\-])
    )""",
    re.X,
)


class EmittedFormatError(Exception):
    pass


def tokenize(s):
    out = []
    pos = 0
    n = len(s)
    while pos < n:
        if s[pos:].strip() == "":
            break
        m = TOK.match(s, pos)
        if not m:
            raise EmittedFormatError(f"cannot tokenise at: {s[pos:pos+40]!r}")
        pos = m.end()
        for k in ("id", "num", "str", "chr", "arrow", "p"):
            v = m.group(k)
            if v is not None:
                out.append((k, v))
                break
    return out


class ExprParser:
    """expr := '&' id | '-' num | num | str | chr | '(' type ')' expr | id ['->' id] | id '(' args ')'"""

    def __init__(self, toks):
        self.t = toks
        self.i = 0

    def peek(self, k=0):
        return self.t[self.i + k] if self.i + k < len(self.t) else (None, None)

    def eat(self, kind=None, val=None):
        k, v = self.peek()
        if k is None or (kind and k != kind) or (val is not None and v != val):
            raise EmittedFormatError(f"expected {kind} {val}, got {k} {v} at token {self.i}")
        self.i += 1
        return v

    def expr(self):
        k, v = self.peek()
        if k == "p" and v == "&":
            self.eat()
            return {"t": "addr", "n": self.eat("id")}
        if k == "p" and v == "-":
            self.eat()
            return {"t": "num", "v": -int(self.eat("num"), 0)}
        if k == "num":
            self.eat()
            return {"t": "num", "v": int(v, 0)}
        if k == "str":
            self.eat()
            return {"t": "str", "s": v[1:-1]}
        if k == "chr":
            self.eat()
            return {"t": "chr", "s": v[1:-1]}
        if k == "p" and v == "(":
            # C cast "(st32) expr"
            self.eat()
            ty = self.eat("id")
            self.eat("p", ")")
            return {"t": "ccast", "ty": ty, "e": self.expr()}
        if k == "id":
            self.eat()
            k2, v2 = self.peek()
            if k2 == "arrow":
                self.eat()
                return {"t": "arrow", "b": v, "m": self.eat("id")}
            if k2 == "p" and v2 == "(":
                self.eat()
                args = []
                if self.peek() != ("p", ")"):
                    args.append(self.expr())
                    while self.peek() == ("p", ","):
                        self.eat()
                        args.append(self.expr())
                self.eat("p", ")")
                return {"t": "call", "f": v, "a": args}
            return {"t": "id", "n": v}
        raise EmittedFormatError(f"unexpected token {k} {v}")


DECL_TYPES = [
    (re.compile(r"^RzILOpPure\s*\*\s*(\w+)\s*=\s*(.*);$", re.S), "pure"),
    (re.compile(r"^RzILOpBool\s*\*\s*(\w+)\s*=\s*(.*);$", re.S), "bool"),
    (re.compile(r"^RzILOpEffect\s*\*\s*(\w+)\s*=\s*(.*);$", re.S), "effect"),
    (re.compile(r"^const\s+HexOp\s*\*\s*(\w+)\s*=\s*(.*);$", re.S), "hexop_ptr"),
    (re.compile(r"^const\s+HexOp\s+(\w+)\s*=\s*(.*);$", re.S), "hexop_val"),
    (re.compile(r"^HexPkt\s*\*\s*(\w+)\s*=\s*(.*);$", re.S), "prologue"),
    (re.compile(r"^const\s+HexInsn\s*\*\s*(\w+)\s*=\s*(.*);$", re.S), "prologue"),
]
RETURN = re.compile(r"^return\s+(.*);$", re.S)
C_IDENT = re.compile(r"^[A-Za-z_]\w*$")


class Body:
    def __init__(self):
        self.decls = []  # dict(kind, name, expr, line)
        self.ret = None  # expr
        self.comments = 0
        self.params = []  # [(ctype, name)] for sub-routine bodies
        self.name = None


def split_statements(text):
    """Splits the body into comment lines and ';'-terminated statements (paren-balance aware)."""
    stmts = []
    for raw in text.split("\n"):
        line = raw.strip()
        if not line:
            continue
        if line.startswith("//"):
            stmts.append(("comment", line))
            continue
        stmts.append(("stmt", line))
    return stmts


def check_balanced(s):
    depth = 0
    in_str = None
    for ch in s:
        if in_str:
            if ch == in_str:
                in_str = None
            continue
        if ch in "\"'":
            in_str = ch
        elif ch == "(":
            depth += 1
        elif ch == ")":
            depth -= 1
            if depth < 0:
                return False
    return depth == 0 and in_str is None


def parse_body(text):
    b = Body()
    seen_return = False
    for kind, line in split_statements(text):
        if kind == "comment":
            b.comments += 1
            continue
        if seen_return:
            raise EmittedFormatError(f"statement after return: {line[:60]!r}")
        if not check_balanced(line):
            raise EmittedFormatError(f"unbalanced parentheses: {line[:80]!r}")
        m = RETURN.match(line)
        if m:
            p = ExprParser(tokenize(m.group(1)))
            b.ret = p.expr()
            if p.i != len(p.t):
                raise EmittedFormatError(f"trailing tokens in return: {line[:80]!r}")
            seen_return = True
            continue
        for rx, k in DECL_TYPES:
            m = rx.match(line)
            if m:
                name = m.group(1)
                p = ExprParser(tokenize(m.group(2)))
                e = p.expr()
                if p.i != len(p.t):
                    raise EmittedFormatError(f"trailing tokens in initialiser: {line[:80]!r}")
                b.decls.append({"kind": k, "name": name, "expr": e, "line": line})
                break
        else:
            raise EmittedFormatError(f"not a declaration/return: {line[:80]!r}")
    if b.ret is None:
        raise EmittedFormatError("no return statement")
    return b


SUBDEF = re.compile(r"^RZ_OWN\s+RzILOpEffect\s*\*\s*(\w+)\s*\((.*?)\)\s*\{\n(.*)\n\}\s*$", re.S)


def parse_subdef(text):
    m = SUBDEF.match(text)
    if not m:
        raise EmittedFormatError("not a sub-routine definition")
    name, params, body = m.group(1), m.group(2), m.group(3)
    ps = []
    for p in [x.strip() for x in params.split(",") if x.strip()]:
        mm = re.match(r"^(.*?)(\w+)$", p)
        if not mm:
            raise EmittedFormatError(f"bad parameter {p!r}")
        ps.append((mm.group(1).strip(), mm.group(2)))
    b = parse_body(body)
    b.params = ps
    b.name = name
    return b


# ----------------------------------------------------------------------------------------------
# EmitC events


ENUM_CONST = re.compile(r"^(HEX_REG_FIELD_|HEX_REG_CLASS_|HEX_REG_ALIAS_|HEX_RF_|RZ_FLOAT_)[A-Z0-9_]+$")


def _uses(e, out, mode="raw"):
    t = e["t"]
    if t == "id":
        if ENUM_CONST.match(e["n"]):
            return  # enumeration constant of the plugin, not a variable
        out.append((e["n"], mode))
    elif t == "addr":
        out.append((e["n"], "addr"))
    elif t == "arrow":
        out.append((e["b"], "member"))
    elif t == "ccast":
        _uses(e["e"], out, mode)
    elif t == "call":
        if e["f"] == "DUP" and len(e["a"]) == 1 and e["a"][0]["t"] == "id":
            out.append((e["a"][0]["n"], "dup"))
            return
        out.append((e["f"], "callee"))
        for a in e["a"]:
            _uses(a, out, "raw")


def _shape(e):
    """the initialiser with every DUP(x) read as x (two effects with the same shape are built from the same operands)"""
    t = e["t"]
    if t == "call":
        if e["f"] == "DUP" and len(e["a"]) == 1:
            return _shape(e["a"][0])
        return "%s(%s)" % (e["f"], ",".join(_shape(a) for a in e["a"]))
    if t == "id":
        return e["n"]
    if t == "ccast":
        return _shape(e["e"])
    return json.dumps(e, sort_keys=True)


def body_events(b):
    """Sequence of events for EmitC.tla: one per declaration plus the return."""
    ev = []
    for p in b.params:
        kind = "param_pure" if "RzILOpPure" in p[0] else "param_ext"
        ev.append({"ev": "Param", "name": p[1], "kind": kind})
    for d in b.decls:
        u = []
        _uses(d["expr"], u)
        ev.append(
            {
                "ev": "Decl",
                "kind": d["kind"],
                "name": d["name"],
                "valid": bool(C_IDENT.match(d["name"])),
                "uses": [{"n": n, "m": m} for n, m in u if m != "callee"],
                "callees": sorted({n for n, m in u if m == "callee"}),
                # for the named deviation StmtExprTwin of EmitC.tla
                "init": _shape(d["expr"]) if d["kind"] == "effect" else "",
                "gcc": d["name"].startswith("gcc_expr"),
            }
        )
    u = []
    _uses(b.ret, u)
    ev.append(
        {
            "ev": "Return",
            "uses": [{"n": n, "m": m} for n, m in u if m != "callee"],
            "callees": sorted({n for n, m in u if m == "callee"}),
        }
    )
    return ev


# ----------------------------------------------------------------------------------------------
# IL term construction

PURE_SIMPLE = {
    "ADD", "SUB", "MUL", "DIV", "MOD", "LOGAND", "LOGOR", "LOGXOR", "LOGNOT", "NEG",
    "SHIFTL0", "SHIFTR0", "SHIFTRA", "MSB", "NON_ZERO", "IS_ZERO", "EQ",
    "ULT", "ULE", "UGT", "UGE", "SLT", "SLE", "SGT", "SGE", "AND", "OR", "XOR", "INV", "ITE",
    "EXTRACT32", "EXTRACT64", "SEXTRACT64", "DEPOSIT32", "DEPOSIT64", "BSWAP16", "BSWAP32", "BSWAP64",
    "F2BV", "IS_INF", "FEQ", "FLT", "FGT", "FLE", "FGE",
}
EFFECT_SIMPLE = {"SEQ2", "BRANCH", "REPEAT", "STOREW", "NOP", "EMPTY"}


def limbs(v, w):
    v &= (1 << w) - 1
    return [(v >> (8 * i)) & 0xFF for i in range((w + 7) // 8)]


class TermBuilder:
    def __init__(self, body):
        self.b = body
        self.env = {}  # C variable -> (kind, term)
        self.ord = 0
        self.params = {p[1]: p[0] for p in body.params}
        self.notes = []

    def next_ord(self):
        self.ord += 1
        return self.ord

    def regdesc(self, e):
        """Resolve a HexOp argument (id, &id or parameter) to its descriptor."""
        if e["t"] in ("id", "addr"):
            n = e["n"]
            if n in self.env and self.env[n][0] in ("hexop_ptr", "hexop_val"):
                return self.env[n][1]
            if n in self.params:
                return {"kind": "param", "name": n}
            raise EmittedFormatError(f"HexOp variable {n} not declared")
        raise EmittedFormatError(f"HexOp argument expected, got {e}")

    def hexop(self, e):
        if e["t"] != "call":
            raise EmittedFormatError("HexOp initialiser is not a call")
        f, a = e["f"], e["a"]
        try:
            if f == "ISA2REG":
                return {"kind": "isa", "letter": a[1]["s"], "new": a[2]["n"] == "true"}
            if f == "EXPLICIT2OP":
                return {"kind": "explicit", "num": a[0]["v"], "cls": a[1]["n"], "new": a[2]["n"] == "true"}
            if f == "ALIAS2OP":
                return {"kind": "alias", "alias": a[0]["n"], "new": a[1]["n"] == "true"}
            if f == "NREG2OP":
                return {"kind": "nreg", "letter": a[1]["s"], "new": True}
        except (KeyError, IndexError):
            pass
        raise EmittedFormatError(f"unknown HexOp constructor {f}")

    def term(self, e):
        t = e["t"]
        if t == "id":
            n = e["n"]
            if n in ("IL_TRUE", "IL_FALSE"):
                return {"op": n, "args": []}
            if n in self.env:
                k, tm = self.env[n]
                if k in ("pure", "bool", "effect"):
                    return tm
                return {"op": "EXT", "kind": "hexop", "reg": tm, "args": []}
            if n in self.params:
                if "RzILOpPure" in self.params[n]:
                    return {"op": "PARAM", "name": n, "args": []}
                return {"op": "EXT", "kind": "param", "name": n, "args": []}
            if n in ("bundle", "pkt", "hi"):
                return {"op": "EXT", "kind": n, "args": []}
            # enum constants and the like
            return {"op": "EXT", "kind": "const", "name": n, "args": []}
        if t == "addr":
            return {"op": "EXT", "kind": "hexop", "reg": self.regdesc(e), "args": []}
        if t == "str":
            return {"op": "EXT", "kind": "str", "name": e["s"], "args": []}
        if t == "arrow":
            return {"op": "EXT", "kind": "member", "name": e["b"] + "->" + e["m"], "args": []}
        if t == "num":
            return {"op": "EXT", "kind": "num", "v": e["v"], "args": []}
        if t != "call":
            raise EmittedFormatError(f"unexpected expression {e}")
        f, a = e["f"], e["a"]
        if f == "DUP":
            return self.term(a[0])
        if f in PURE_SIMPLE or f in EFFECT_SIMPLE:
            return {"op": f, "args": [self.term(x) for x in a]}
        if f in ("SN", "UN"):
            w = a[0]["v"]
            v = a[1]
            if v["t"] == "num":
                return {"op": "BV", "w": w, "sg": f == "SN", "v": limbs(v["v"], w), "args": []}
            if v["t"] == "ccast" and v["e"]["t"] == "call" and v["e"]["f"] == "ISA2IMM":
                return {
                    "op": "IMM", "w": w, "sg": f == "SN", "cast": v["ty"],
                    "letter": v["e"]["a"][1]["s"], "args": [],
                }
            raise EmittedFormatError(f"unreadable literal {e}")
        if f == "U32":
            if a[0]["t"] == "arrow" and a[0]["b"] == "pkt" and a[0]["m"] == "pkt_addr":
                return {"op": "PC", "args": []}
            raise EmittedFormatError(f"unreadable U32 {e}")
        if f == "CAST":
            return {"op": "CAST", "w": a[0]["v"], "args": [self.term(a[1]), self.term(a[2])]}
        if f in ("UNSIGNED", "SIGNED"):
            return {"op": f, "w": a[0]["v"], "args": [self.term(a[1])]}
        if f in ("INC", "DEC"):
            return {"op": f, "w": a[1]["v"], "args": [self.term(a[0])]}
        if f in ("VARL", "VARLP"):
            return {"op": f, "name": a[0]["s"], "args": []}
        if f == "SETL":
            return {"op": "SETL", "name": a[0]["s"], "args": [self.term(a[1])]}
        if f == "LET":
            return {"op": "LET", "name": a[0]["s"], "args": [self.term(a[1]), self.term(a[2])]}
        if f == "LOADW":
            return {"op": "LOADW", "w": a[0]["v"], "args": [self.term(a[1])]}
        if f == "SEQN":
            return {"op": "SEQN", "n": a[0]["v"], "args": [self.term(x) for x in a[1:]]}
        if f == "READ_REG":
            rd = self.regdesc(a[1])
            return {
                "op": "READ_REG", "reg": rd, "new": a[2]["n"] == "true",
                "ctx": a[0].get("n"), "ord": self.next_ord(), "args": [],
            }
        if f == "WRITE_REG":
            rd = self.regdesc(a[1])
            v = self.term(a[2])
            return {"op": "WRITE_REG", "reg": rd, "ctx": a[0].get("n"), "ord": self.next_ord(), "args": [v]}
        if f == "HEX_STORE_SLOT_CANCELLED":
            return {"op": "SLOT_CANCEL", "args": []}
        if f == "HEX_GET_NPC":
            # plugin function returning the effect SETL("ret_val", <address of the next packet>)
            return {"op": "GET_NPC", "args": []}
        if f.startswith("hex_"):
            args = [self.term(x) for x in a]
            return {"op": "CALL", "name": f[4:], "ord": self.next_ord(), "args": args}
        if f in ("HEX_REGFIELD", "HEX_GET_CORRESPONDING_CS", "HEX_GET_NPC", "HEX_GET_INSN_RMODE",
                 "HEX_SETROUND", "BV2F", "HEX_INT_TO_D", "HEX_INT_TO_F", "HEX_SINT_TO_D", "HEX_SINT_TO_F",
                 "HEX_D_TO_INT", "HEX_F_TO_INT", "HEX_D_TO_SINT", "HEX_F_TO_SINT",
                 "FADD", "FSUB", "FMUL", "FDIV", "FMOD", "FNEQ"):
            return {"op": "UF", "name": f, "args": [self.term(x) for x in a]}
        self.notes.append(f"unknown callee {f}")
        return {"op": "UNKNOWN", "name": f, "args": [self.term(x) for x in a]}

    def build(self):
        for d in self.b.decls:
            k = d["kind"]
            if k in ("hexop_ptr", "hexop_val"):
                self.env[d["name"]] = (k, self.hexop(d["expr"]))
            elif k == "prologue":
                self.env[d["name"]] = (k, None)
            else:
                self.env[d["name"]] = (k, self.term(d["expr"]))
        return self.term(self.b.ret)


def body_term(b):
    tb = TermBuilder(b)
    t = tb.build()
    return t, tb.notes


def term_size(t):
    return 1 + sum(term_size(x) for x in t.get("args", []))


def read_emitted(text, is_subdef=False):
    """Convenience: returns dict(term, events, notes, decls) or raises EmittedFormatError."""
    b = parse_subdef(text) if is_subdef else parse_body(text)
    term, notes = body_term(b)
    return {
        "term": term,
        "events": body_events(b),
        "notes": notes,
        "ndecl": len(b.decls),
        "params": [{"ctype": p[0], "name": p[1]} for p in b.params],
        "name": b.name,
    }
