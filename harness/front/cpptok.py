"""C preprocessing tokens (C11 6.4): identifiers, pp-numbers, string / character literals, punctuators.
White space and comments are dropped.  A projection function: no macro semantics in here."""
import re

PUNCT = ["%:%:", "...", "<<=", ">>=", "##", "->", "++", "--", "<<", ">>", "<=", ">=", "==", "!=", "&&", "||", "*=", "/=", "%=", "+=",
         "-=", "&=", "^=", "|=", "<:", ":>", "<%", "%>", "%:"]
TOK = re.compile(
    r"""(?P<ws>\s+|/\*.*?\*/|//[^\n]*)
      | (?P<id>[A-Za-z_]\w*)
      | (?P<num>\.?\d(?:[eEpP][+-]|[\w.])*)
      | (?P<str>"(?:[^"\\\n]|\\.)*")
      | (?P<chr>'(?:[^'\\\n]|\\.)*')
      | (?P<punct>%s|[-\[\](){}.&*+~!/%%<>^|?:;=,#\\@$`])""" % "|".join(re.escape(p) for p in PUNCT),
    re.X | re.S,
)


def tokens(text):
    out = []
    pos = 0
    while pos < len(text):
        m = TOK.match(text, pos)
        if not m:
            out.append(text[pos])
            pos += 1
            continue
        pos = m.end()
        if m.lastgroup != "ws":
            out.append(m.group(m.lastgroup))
    return out


DEFINE = re.compile(r"^\s*#\s*define\s+([A-Za-z_]\w*)(\(([^)]*)\))?(.*)$", re.S)


def parse_define(line):
    """'#define NAME(params) body' -> (name, macro record) ; function-like iff '(' follows the name immediately"""
    m = DEFINE.match(line)
    if not m:
        return None
    name = m.group(1)
    fn = m.group(2) is not None
    params = [p.strip() for p in m.group(3).split(",")] if fn and m.group(3).strip() else []
    return name, {"fn": fn, "params": params, "body": tokens(m.group(4))}
