"""Syntax trees of the shortcode dialect (the CSem.tla syntax) as JSON-able dicts, a printer to C text
(fully parenthesised, so the text has exactly one reading) and small projections (resources used).

Node kinds (field k):
  expressions: num var reg imm un bin cond cast assign postfix load sizeof comma stmtexpr call
  statements : decl expr empty nop cancel block if for while do break continue return store jump
               (+ goto label switch case prefix index member deref addr: only for C15/C17)
"""

NONE = {"k": "none"}


def limbs64(v):
    v &= (1 << 64) - 1
    return [(v >> (8 * i)) & 0xFF for i in range(8)]


def T(s, w):
    return {"s": bool(s), "w": int(w)}


def num(v, base="dec", suffix=""):
    return {"k": "num", "v": limbs64(v), "base": base, "suffix": suffix.upper(), "sfx": suffix}


def var(n):
    return {"k": "var", "n": n}


def reg(rt, acc, pair=False, new=False):
    return {"k": "reg", "kind": "isa", "rt": rt, "acc": acc, "pair": bool(pair), "new": bool(new)}


def xreg(rt, n, pair=False, new=False, n2=None):
    r = {"k": "reg", "kind": "explicit", "rt": rt, "num": int(n), "pair": bool(pair), "new": bool(new)}
    if n2 is not None:
        r["num2"] = int(n2)
    return r


def alias(name, new=False):
    return {"k": "reg", "kind": "alias", "alias": name, "new": bool(new)}


def imm(letter):
    return {"k": "imm", "l": letter}


def un(o, a):
    return {"k": "un", "o": o, "a": a}


def bin_(o, a, b):
    return {"k": "bin", "o": o, "a": a, "b": b}


def cond(c, a, b):
    return {"k": "cond", "c": c, "a": a, "b": b}


def cast(t, a):
    return {"k": "cast", "t": t, "a": a}


def assign(l, r, o="="):
    return {"k": "assign", "o": o, "l": l, "r": r}


def postfix(o, a):
    return {"k": "postfix", "o": o, "a": a}


def load(s, w, a):
    return {"k": "load", "s": bool(s), "w": int(w), "a": a}


def call(f, args):
    return {"k": "call", "f": f, "args": list(args)}


def stmtexpr(body, e):
    return {"k": "stmtexpr", "body": list(body), "e": e}


def decl(t, n, init=None):
    return {"k": "decl", "t": t, "n": n, "init": init if init is not None else NONE}


def expr(e):
    return {"k": "expr", "e": e}


def if_(c, t, e=None):
    return {"k": "if", "c": c, "t": list(t), "e": list(e) if e is not None else [], "has_else": e is not None}


def for_(init, c, step, body):
    return {"k": "for", "init": init or NONE, "c": c or NONE, "step": step or NONE, "body": list(body)}


def block(b):
    return {"k": "block", "b": list(b)}


def store(s, w, a, v):
    return {"k": "store", "s": bool(s), "w": int(w), "a": a, "v": v}


def jump(a):
    return {"k": "jump", "a": a}


def ret(e=None):
    return {"k": "return", "e": e if e is not None else NONE}


# ----------------------------------------------------------------------------------------------
# printer


def ctype(t):
    if t.get("name"):
        return t["name"]
    return ("" if t["s"] else "u") + "int%d_t" % t["w"]


def val_of(limbs):
    return sum(b << (8 * i) for i, b in enumerate(limbs))


def regtok(r):
    if r["kind"] == "isa":
        a = r["acc"] * 2 if r["pair"] else r["acc"]
        return r["rt"] + a + ("N" if r["new"] else "V")
    if r["kind"] == "explicit":
        s = "%s%d" % (r["rt"], r["num"])
        if r.get("num2") is not None:
            s = "%s%d:%d" % (r["rt"], r["num2"], r["num"])
        return s + ("_NEW" if r["new"] else "")
    if r["kind"] == "alias":
        return "HEX_REG_ALIAS_" + r["alias"] + ("_NEW" if r["new"] else "")
    raise ValueError(r)


def pe(e, top=False):
    """expression -> text, fully parenthesised"""
    k = e["k"]
    if k == "num":
        v = val_of(e["v"])
        s = hex(v) if e["base"] == "hex" else str(v)
        return s + e.get("sfx", e["suffix"])
    if k == "var":
        return e["n"]
    if k == "reg":
        return regtok(e)
    if k == "imm":
        return e["l"] + "iV"
    if k == "un":
        return "(%s%s)" % (e["o"], pe(e["a"]))
    if k == "bin":
        return "(%s %s %s)" % (pe(e["a"]), e["o"], pe(e["b"]))
    if k == "cond":
        return "(%s ? %s : %s)" % (pe(e["c"]), pe(e["a"]), pe(e["b"]))
    if k == "cast":
        return "((%s)%s)" % (ctype(e["t"]), pe(e["a"]))
    if k == "assign":
        s = "%s %s %s" % (pe(e["l"]), e["o"], pe(e["r"]))
        return s if top else "(" + s + ")"
    if k == "postfix":
        return "%s%s" % (pe(e["a"]), e["o"])
    if k == "load":
        return "mem_load_%s%d(%s)" % ("s" if e["s"] else "u", e["w"] // 8 if e.get("bytes") else e["w"], pe(e["a"], True))
    if k == "sizeof":
        return "sizeof(%s)" % pe(e["a"], True)
    if k == "comma":
        return "(%s, %s)" % (pe(e["a"], True), pe(e["b"], True))
    if k == "stmtexpr":
        return "({ %s %s; })" % (" ".join(ps(s) for s in e["body"]), pe(e["e"], True))
    if k == "call":
        return "%s(%s)" % (e["f"], ", ".join(pe(a, True) for a in e["args"]))
    if k == "prefix":
        return "(%s%s)" % (e["o"], pe(e["a"]))
    if k == "index":
        return "%s[%s]" % (pe(e["a"]), pe(e["i"], True))
    if k == "member":
        return "%s%s%s" % (pe(e["a"]), e["o"], e["m"])
    if k == "deref":
        return "(*%s)" % pe(e["a"])
    if k == "addr":
        return "(&%s)" % pe(e["a"])
    if k == "raw":
        return e["text"]
    raise ValueError("cannot print expression kind %s" % k)


def ps(s):
    k = s["k"]
    if k == "decl":
        if s["init"]["k"] == "none":
            return "%s %s;" % (ctype(s["t"]), s["n"])
        return "%s %s = %s;" % (ctype(s["t"]), s["n"], pe(s["init"], True))
    if k == "expr":
        return pe(s["e"], True) + ";"
    if k == "empty":
        return ";"
    if k == "nop":
        return "__NOP;"
    if k == "cancel":
        return "cancel_slot;"
    if k == "block":
        return "{ " + " ".join(ps(x) for x in s["b"]) + " }"
    if k == "if":
        r = "if (%s) { %s }" % (pe(s["c"], True), " ".join(ps(x) for x in s["t"]))
        if s.get("has_else", bool(s["e"])):
            r += " else { %s }" % " ".join(ps(x) for x in s["e"])
        return r
    if k == "for":
        init = ps(s["init"]) if s["init"]["k"] != "none" else ";"
        c = pe(s["c"], True) if s["c"]["k"] != "none" else ""
        st = pe(s["step"], True) if s["step"]["k"] != "none" else ""
        return "for (%s %s; %s) { %s }" % (init, c, st, " ".join(ps(x) for x in s["body"]))
    if k == "while":
        return "while (%s) { %s }" % (pe(s["c"], True), " ".join(ps(x) for x in s["body"]))
    if k == "do":
        return "do { %s } while (%s);" % (" ".join(ps(x) for x in s["body"]), pe(s["c"], True))
    if k == "break":
        return "break;"
    if k == "continue":
        return "continue;"
    if k == "return":
        return "return;" if s["e"]["k"] == "none" else "return %s;" % pe(s["e"], True)
    if k == "store":
        return "mem_store_%s%d(%s, %s);" % ("s" if s["s"] else "u", s["w"], pe(s["a"], True), pe(s["v"], True))
    if k == "jump":
        return "JUMP(%s);" % pe(s["a"], True)
    if k == "goto":
        return "goto %s;" % s["n"]
    if k == "label":
        return "%s: %s" % (s["n"], ps(s["s"]))
    if k == "switch":
        return "switch (%s) { %s }" % (pe(s["c"], True), " ".join(ps(x) for x in s["body"]))
    if k == "case":
        return "case %s: %s" % (pe(s["c"], True), ps(s["s"]))
    if k == "default":
        return "default: %s" % ps(s["s"])
    if k == "rawstmt":
        return s["text"]
    raise ValueError("cannot print statement kind %s" % k)


def program_text(body):
    return "{ " + " ".join(ps(s) for s in body) + " }"


# ----------------------------------------------------------------------------------------------
# projections


def walk(node, f):
    """calls f on every dict node (pre-order)"""
    if isinstance(node, dict):
        f(node)
        for v in node.values():
            walk(v, f)
    elif isinstance(node, list):
        for v in node:
            walk(v, f)


def regkey(r):
    if r["kind"] == "isa":
        return "isa:" + r["acc"]
    if r["kind"] == "explicit":
        return "ex:%s%s:%d" % (r["rt"], "p" if r["pair"] else "", r["num"])
    return "al:" + r["alias"]


def resources(body):
    """distinct register nodes (by resource) and immediate letters used by a program"""
    regs = {}
    imms = []

    def f(n):
        if n.get("k") == "reg":
            k = regkey(n)
            if k not in regs:
                regs[k] = {x: n[x] for x in n if x != "k"}
                regs[k]["k"] = "reg"
            else:
                # a .new use and a plain use of the same operand: keep both flags irrelevant for state
                pass
        elif n.get("k") == "imm" and n["l"] not in imms:
            imms.append(n["l"])

    walk(body, f)
    return list(regs.values()), imms


def declared_vars(body):
    out = []

    def f(n):
        if n.get("k") == "decl" and n["n"] not in out:
            out.append(n["n"])

    walk(body, f)
    return out


def flat_stmts(body):
    """statement list with plain nested blocks dissolved (recursively): the sequence of non-block statements"""
    out = []
    for s in body:
        if s["k"] == "block":
            out.extend(flat_stmts(s["b"]))
        else:
            out.append(s)
    return out
