"""Per-artefact properties decided by spec/Static.tla (and spec/TV.tla for C16) over the shared artefact set."""
import json

from . import artefacts, tvcheck, tv, tlc
from .front import cast

GEN = (("Gen_C02.tla", 8), ("Gen_C05.tla", 3))


def run_static_property(ctx, field, what, rule, select=None, extra=None, gen=GEN, n_corpus=(100, None), gen_kind="stmt", keep=None):
    """field: 'sort' | 'emitc' | 'meta'; select(report_value) -> bool (is this report a violation of THIS property)"""
    art = artefacts.collect(ctx, n_corpus=n_corpus, gen_modules=gen, gen_kind=gen_kind, keep=keep)
    s, reps = artefacts.run_static(art)
    bad = 0
    for r in reps:
        v = r.get(field, "")
        if not v:
            continue
        if select and not select(v):
            continue
        f = None
        for kf in ctx.findings_for("static"):
            if kf.get("field") == field and kf.get("pattern") and kf["pattern"] in v:
                f = kf
        if f:
            ctx.note_known(f, "%s: %s" % (r["id"], v[:80]))
            continue
        bad += 1
        ctx.violation("%s [%s, layout %s]: %s -- %s" % (what, r["id"], r["fmt"], v, artefacts.case_text(art, r["id"])),
                      {"kind": "static", "id": r["id"], "fmt": r["fmt"], "field": field, "verdict": v,
                       "text": artefacts.case_text(art, r["id"])})
    n = artefacts.n_artefacts(art)
    cov = {
        "programs": len(art.cases), "disagreements_checked": bad,
        "states": s.states, "transitions": s.transitions, "traces_validated_against_impl": n,
        "evaluations": n, "distinct_nontrivial": len(art.cases),
        "rule": rule + "; artefact set = %d corpus instructions (accepted parts, both layouts), the 13 bundled sub-routine definitions and "
                       "generated programs of Gen_C02 / Gen_C05 (both layouts); every artefact is distinct" % art.info["corpus_instructions"],
        "samples": [{"id": c["id"], "text": c.get("text", "")[:160]} for c in art.cases[:2] + art.cases[-1:]],
        "info": art.info, "exhaustive": False,
    }
    if extra:
        extra(ctx, art, cov)
    return ctx.finish("model_checking" if field != "sort" else "translation_validation", cov,
                      ["the emitted-text reader is a projection function (trusted)", "sorts transcribed from rz_il_validate's documented rules"])
