"""Table of the checks that are claimed in MANIFEST.json (bin/mkmanifest regenerates the manifest)."""
TB = ("trusted base: TLC + CommunityModules overrides; TLA+ modules BV (model-checked against integer arithmetic), "
      "CTypes, CSem, RzIL, Sorts, Arch (assumptions A1-A7 of DESIGN.md section 5), the Python projection functions "
      "(printer, emitted-text reader)")
CHECKS = {
    "C02": {
        "category": "translation_validation",
        "text": "every operator x type combination (TLC-enumerated from Gen_C02) is compiled by the real compiler in both layouts and "
                "TLC evaluates the emitted IL against the C11 semantics (CSem.tla) on exhaustive 8-bit / boundary / random inputs; "
                "bounded by the enumerated programs and input families, no proof beyond them",
        "note": TB,
        "technique": "TLC translation validation of observed compiler output against a TLA+ C11/RzIL semantics",
    },
}
CHECKS["C01"] = {
    "category": "translation_validation",
    "text": "every accepted part of the bundled corpus (seeded stratified sample in quick, all 2181 instructions in thorough) and the 13 "
            "bundled sub-routines: the emitted IL of both layouts is evaluated by TLC against the C behaviour text parsed by an "
            "independent parser, on boundary/random machine states; acceptance is compared with CSem!InDialect",
    "note": TB + "; floating point behaviours are skipped (uninterpreted), HVX behaviours only for 'rejected, not approximated'",
    "technique": "TLC translation validation of the bundled corpus against a TLA+ C11/RzIL semantics",
}
CHECKS["C04"] = {
    "category": "model_checking",
    "engine": "tlc-mc",
    "text": "the real c11_cast / promoted_type are called on every ordered pair of types over the run's width set (24 boundary widths in quick; "
            "1..160, all multiples of 8 up to 2048 and the neighbours of powers of two in thorough) and every call event is validated by TLC "
            "against CTypes!Common / CTypes!Promote (result, argument immutability, aliasing, determinism); TLC also checks the three C11 "
            "clauses on the specification itself",
    "note": "trusted base: TLC, CTypes.tla, the event logger (harness/ctypes_driver.py); widths outside the set are not covered",
    "technique": "call-trace validation against a TLA+ definition of the C11 conversion table",
}
CHECKS["C18"] = {
    "category": "model_checking",
    "engine": "tlc-mc",
    "text": "ParsePool.tla (Dispatch/Finish/Yield, all part counts, failure points and 1..3 workers for 4 tasks, every interleaving) is "
            "model-checked exhaustively for one-entry-per-name, equality with sequential parsing, failure isolation and termination under weak "
            "fairness; the real Parser.parse is then run under TLC-simulated schedules (pool size, failing parts, completion order imposed by "
            "per-task delays; pool sizes up to 16) and the per-process event sequences plus the returned dictionary are validated by TLC as a "
            "behaviour of ParsePool (interleaving inferred, no wall clock)",
    "note": "OS scheduling is steered and recorded, not enumerated; wrappers around rzilcompiler.Parser.parse_single/Pool/tqdm are installed by the harness",
    "technique": "TLC model checking of a TLA+ pool model + trace validation of real pool runs",
}
CHECKS["C19"] = {
    "category": "model_checking",
    "engine": "tlc-mc",
    "text": "Shortcode.tla defines the line and compound formats and generates every body over a 12-atom alphabet up to length 4 (5 in thorough), "
            "27 malformed variants and 450 compound bodies; together with all bundled lines they are fed to the real split/load functions and "
            "every call event is validated by TLC against the specification (NAME/BODY recovered exactly, malformed rejected, statement "
            "sequence of the two parts equals the original, parts brace-balanced); load_insn_behavior is run on generated files in a scratch git directory",
    "note": "trusted base: TLC, Shortcode.tla, the independent dialect parser used to read the statement lists of returned parts",
    "technique": "TLC-enumerated inputs + call-trace validation against a TLA+ definition of the line format",
}
NOT_YET = {}
