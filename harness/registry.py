"""Table of the checks that are claimed in MANIFEST.json (bin/mkmanifest regenerates the manifest)."""
TB = ("trusted base: TLC + CommunityModules overrides; TLA+ modules BV (model-checked against integer arithmetic), "
      "CTypes, CSem, RzIL, Sorts, Arch (assumptions A1-A7 of DESIGN.md section 5), the Python projection functions "
      "(printer, emitted-text reader)")
CHECKS = {
    "C02": {
        "category": "translation_validation",
        "text": "every operator x type combination (TLC-enumerated from Gen_C02) is compiled by the real compiler in both layouts and "
                "TLC evaluates the emitted IL against the C11 semantics (CSem.tla) on exhaustive 8-bit / boundary / random inputs; "
                "bounded by the enumerated programs and input families, no proof beyond them",
        "note": TB,
        "technique": "TLC translation validation of observed compiler output against a TLA+ C11/RzIL semantics",
    },
}
NOT_YET = {}
