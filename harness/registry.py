"""Table of the checks that are claimed in MANIFEST.json (bin/mkmanifest regenerates the manifest)."""
TB = ("trusted base: TLC + CommunityModules overrides; TLA+ modules BV (model-checked against integer arithmetic), "
      "CTypes, CSem, RzIL, Sorts, Arch (assumptions A1-A7 of DESIGN.md section 5), the Python projection functions "
      "(printer, emitted-text reader)")
CHECKS = {
    "C02": {
        "category": "translation_validation",
        "text": "every operator x type combination (TLC-enumerated from Gen_C02) is compiled by the real compiler in both layouts and "
                "TLC evaluates the emitted IL against the C11 semantics (CSem.tla) on exhaustive 8-bit / boundary / random inputs; "
                "bounded by the enumerated programs and input families, no proof beyond them",
        "note": TB,
        "technique": "TLC translation validation of observed compiler output against a TLA+ C11/RzIL semantics",
    },
}
CHECKS["C01"] = {
    "category": "translation_validation",
    "text": "every accepted part of the bundled corpus (seeded stratified sample in quick, all 2181 instructions in thorough) and the 13 "
            "bundled sub-routines: the emitted IL of both layouts is evaluated by TLC against the C behaviour text parsed by an "
            "independent parser, on boundary/random machine states; acceptance is compared with CSem!InDialect",
    "note": TB + "; floating point behaviours are skipped (uninterpreted), HVX behaviours only for 'rejected, not approximated'",
    "technique": "TLC translation validation of the bundled corpus against a TLA+ C11/RzIL semantics",
}
CHECKS["C04"] = {
    "category": "model_checking",
    "engine": "tlc-mc",
    "text": "the real c11_cast / promoted_type are called on every ordered pair of types over the run's width set (24 boundary widths in quick; "
            "1..160, all multiples of 8 up to 2048 and the neighbours of powers of two in thorough) and every call event is validated by TLC "
            "against CTypes!Common / CTypes!Promote (result, argument immutability, aliasing, determinism); TLC also checks the three C11 "
            "clauses on the specification itself",
    "note": "trusted base: TLC, CTypes.tla, the event logger (harness/ctypes_driver.py); widths outside the set are not covered",
    "technique": "call-trace validation against a TLA+ definition of the C11 conversion table",
}
CHECKS["C18"] = {
    "category": "model_checking",
    "engine": "tlc-mc",
    "text": "ParsePool.tla (Dispatch/Finish/Yield, all part counts, failure points and 1..3 workers for 4 tasks, every interleaving) is "
            "model-checked exhaustively for one-entry-per-name, equality with sequential parsing, failure isolation and termination under weak "
            "fairness; the real Parser.parse is then run under TLC-simulated schedules (pool size, failing parts, completion order imposed by "
            "per-task delays; pool sizes up to 16) and the per-process event sequences plus the returned dictionary are validated by TLC as a "
            "behaviour of ParsePool (interleaving inferred, no wall clock)",
    "note": "OS scheduling is steered and recorded, not enumerated; wrappers around rzilcompiler.Parser.parse_single/Pool/tqdm are installed by the harness",
    "technique": "TLC model checking of a TLA+ pool model + trace validation of real pool runs",
}
CHECKS["C19"] = {
    "category": "model_checking",
    "engine": "tlc-mc",
    "text": "Shortcode.tla defines the line and compound formats and generates every body over a 12-atom alphabet up to length 4 (5 in thorough), "
            "27 malformed variants and 450 compound bodies; together with all bundled lines they are fed to the real split/load functions and "
            "every call event is validated by TLC against the specification (NAME/BODY recovered exactly, malformed rejected, statement "
            "sequence of the two parts equals the original, parts brace-balanced); load_insn_behavior is run on generated files in a scratch git directory",
    "note": "trusted base: TLC, Shortcode.tla, the independent dialect parser used to read the statement lists of returned parts",
    "technique": "TLC-enumerated inputs + call-trace validation against a TLA+ definition of the line format",
}
CHECKS["C05"] = {
    "category": "translation_validation",
    "text": "statement skeletons enumerated/sampled by TLC from Gen_C05 (atoms with distinguishable traces, all compound assignments on 32/64-bit "
            "targets, if/else chains, for loops with data-dependent trip counts 0..8, nested loops, blocks, overlapping stores) are compiled in both "
            "layouts and TLC compares the final locals, registers and memory with the C semantics for every low-byte value of the trip-count register",
    "note": TB,
    "technique": "TLC translation validation of generated statement programs",
}
CHECKS["C10"] = {
    "category": "translation_validation",
    "text": "Sorts.tla (mirror of rz_il_validate: operand widths, bool vs bit vector, ITE arms, local sort stability across all paths, register-write and "
            "store widths, LET scoping, SEQN arity, call arguments, inlined callee bodies) is evaluated by TLC on every observed effect of the artefact "
            "set: corpus parts, bundled sub-routines, generated programs mixing logical/comparison results with arithmetic; both layouts; the operand catalogue of Gen_C07 (every operand letter x access kind, JUMP, loads/stores); the plugin-owned locals jump_target (32-bit PC) and jump_flag (boolean) have fixed sorts",
    "note": TB + "; sort rules transcribed from Rizin's documentation (Rizin itself is not in the sandbox)",
    "technique": "TLC evaluation of a TLA+ RzIL sort checker on observed compiler output",
}
CHECKS["C11"] = {
    "category": "model_checking",
    "text": "the emitted text of every artefact is read by an independent C-declaration reader and replayed statement by statement through the EmitC "
            "state machine (declared once, declared before use, valid identifiers, known callees, hi/pkt in scope only if the needs-hi/needs-pkt flag or "
            "the sub-routine prologue provides them); Meta.tla checks one getter per part, prototype form and uniqueness over all 2181 instructions; artefact set includes the operand catalogue of Gen_C07 and the hybrid programs of Gen_C06; generated sub-routine definitions whose parameter names contain 'hi' / 'pkt' and whose bodies need those variables",
    "note": "trusted base: TLC, EmitC.tla, Meta.tla, the emitted-text reader (understands C syntax, not the golden layout)",
    "technique": "trace validation of the emitted statement sequence against a TLA+ state machine",
}
CHECKS["C12"] = {
    "category": "model_checking",
    "text": "the same statement traces are validated against the ownership clauses of EmitC.tla: every pure/effect variable has exactly one un-DUP'ed use, "
            "DUP only on pures, borrowed parameters at most one raw use, nothing initialised is left unconsumed; artefact set includes the operand catalogue of Gen_C07 and the hybrid programs of Gen_C06 (named deviation StmtExprTwin for the duplicated statement of a statement-expression)",
    "note": "trusted base: TLC, EmitC.tla, the emitted-text reader; counting is on the identifier level of the text as emitted",
    "technique": "trace validation of the emitted statement sequence against a TLA+ ownership state machine",
}
CHECKS["C13"] = {
    "category": "model_checking",
    "text": "static half: Attrs!Attr(syntax tree) is compared by TLC with the reported attribute list of every accepted corpus part (300 instructions in "
            "quick, all in thorough) and of generated programs; history half: Lifecycle.tla is model-checked for 'attributes are a function of the part' "
            "and TLC-generated histories are replayed on real compiler instances (see C14)",
    "note": "trusted base: TLC, Attrs.tla, the independent dialect parser",
    "technique": "TLC evaluation of a TLA+ attribute function on independently parsed source + lifecycle replay",
}
CHECKS["C16"] = {
    "category": "translation_validation",
    "text": "both CodeFormat layouts of every artefact are executed by TLC from the same input states; final architectural state, all IL locals and the "
            "reported attribute sets must coincide, and both must pass Sorts and EmitC",
    "note": TB,
    "technique": "TLC layout-versus-layout translation validation",
}
CHECKS["C14"] = {
    "category": "model_checking",
    "engine": "tlc-mc",
    "text": "Lifecycle.tla (instances, flags, predicate numbers, holder residue, pending hybrids, queued immediates, temp counter, class-level "
            "registry; entry points compile_c_stmt / transform_insn / add_sub_routine; failing behaviours) is model-checked exhaustively for history "
            "independence; TLC-simulated histories (failures interleaved at every position, both entry points, two instances) are replayed on real "
            "Compiler objects, one process per history, and every recorded step (returned/raised, projected state, normalised output vs a fresh "
            "compiler, attribute list vs a fresh compiler, temp counter) is validated by TLC against the specification",
    "note": "trusted base: TLC, Lifecycle.tla, the catalogue mapping abstract behaviours to concrete texts (each entry is compiled by a fresh compiler "
            "first), the normaliser (bijective renaming by first occurrence)",
    "technique": "TLC model checking of a TLA+ lifecycle model + replay of TLC-generated histories with trace validation",
}
CHECKS["C03"] = {
    "category": "translation_validation",
    "text": "all 8x8 source/target type pairs in ten conversion contexts (cast, initialisation, assignment, 32-bit/pair/predicate register, store, "
            "call argument and return value of generated sub-routines, compound assignment), boolean sources and chains of three conversions are "
            "compiled in both layouts and evaluated by TLC against C11 6.3.1.3; 8-bit sources exhaustively",
    "note": TB,
    "technique": "TLC translation validation of generated conversion programs",
}
CHECKS["C07"] = {
    "category": "translation_validation",
    "text": "the operand catalogue (register letters x access letters x single/pair x V/N, explicit registers and pairs, aliases, immediates, loads/stores, "
            "JUMP, PC) is enumerated by TLC; each spelling is compiled in read / read-.new / write / read-modify-write programs and TLC executes the "
            "emitted IL on states where every bank has old # new: resource key (slot letter, class, number, alias), .new flag, width and signedness "
            "all show in the observed values; Sorts additionally checks the width given to every WRITE_REG",
    "note": TB + "; explicit pairs overlapping single registers are modelled as separate resources",
    "technique": "TLC translation validation over a TLA+ operand catalogue",
}
CHECKS["C09"] = {
    "category": "translation_validation",
    "text": "literal spellings (dec/hex x suffixes x values around 2^7..2^64-1) in type-revealing contexts, folding of literal pairs under 10 operators, "
            "constant-condition ?: whose dead arm shares operands with live code, and sizeof of every operand kind are compiled and evaluated by TLC "
            "against the C semantics (literal typing per C11 6.4.4.1); literal division by zero must be rejected; folding over negative / complemented folded operands against signed and unsigned literals (11 operators); sizeof of comparison / logical expressions",
    "note": TB,
    "technique": "TLC translation validation of generated constant-folding programs",
}
CHECKS["C06"] = {
    "category": "translation_validation",
    "text": "9 value-producing side-effecting operations (postfix ++/-- on a local and a register, bundled / generated / nested calls, statement-"
            "expressions) in 13 positions, surrounded by non-commuting updates of the object they modify, and seeded pairs of them are compiled in both "
            "layouts; TLC compares the final state with the C semantics (exactly once, in order, only when selected) on every low-byte input; Sorts "
            "tracks locals that may be read before they are written; statement-expressions in both arms of ?: (3 x 3 pairs, three contexts incl. nested ?:)",
    "note": TB + "; four listed findings (unguarded hybrids in ?: arms, unused hybrid statements, && right operands, loop conditions) are keyed by "
                 "shape predicates of spec/Shapes.tla",
    "technique": "TLC translation validation of generated hybrid-placement programs",
}
CHECKS["C08"] = {
    "category": "translation_validation",
    "text": "15 generated sub-routines registered through add_sub_routine plus the bundled ones; 64 argument/return type pairs, single calls, expressions "
            "with 2..4 calls, name clashes, live temporaries, calls in loops/conditions/arguments; compiled on long-lived compilers and on a fresh "
            "compiler per program; TLC executes the caller with the observed callee bodies inlined by term substitution in the flat IL namespace and "
            "compares with C call semantics (parameter conversion, callee-local scope, return conversion, frame condition on caller locals); nested callees that share parameter names with their callers while a caller temporary is live; the same operand passed to parameters of different types",
    "note": TB + "; by-reference register operands are bound by spelling as the compiler does",
    "technique": "TLC translation validation with inlined observed callee bodies",
}
CHECKS["C15"] = {
    "category": "translation_validation",
    "text": "each construct without a translation (break, continue, goto, labels, switch/case, comma, while, do, unknown calls, [] . -> prefix ++/-- * &) "
            "is placed at 8 statement / 6 expression positions around supported code; if the compiler returns code, CSem!HasMeaning decides whether that "
            "is itself the violation (goto, labels, switch, member access, ...) or whether the code must be right (while, do, break/continue, comma, "
            "prefix: TLC validates it) and every declared effect must be sequenced; supported statement shapes whose last item must not get lost (statement-expression tails, blocks, loops), side-effecting sub-expressions nested in one another, label-less switch, unknown calls without arguments; an effect that is declared but never sequenced is a violation regardless of any listed finding",
    "note": TB,
    "technique": "TLC-enumerated unsupported-construct placements + translation validation of whatever is accepted",
}
CHECKS["C17"] = {
    "category": "model_checking",
    "engine": "tlc-mc",
    "text": "Grammar.tla defines C's precedence/associativity table with a minimal-parenthesis unparser and a precedence-climbing parser and TLC "
            "checks their bijection on the generated set (all 18x18 ordered operator pairs in both nestings, unary x binary, cast/unary/postfix, ?: "
            "and assignment nestings, if/else nestings incl. dangling else); the texts (plus blank variants around & / &&, 140 operand-like "
            "identifiers, statement-expression forms and corpus behaviours) are parsed by the real Lark parser, the trees are projected rule-by-rule "
            "and TLC compares them with the generating trees / the independent parser's trees; repeated under other hash seeds with fresh and "
            "reused parser objects in shuffled order; casts in front of unary operators behind every binary operator; explicit register numbers 0..31",
    "note": "trusted base: TLC, Grammar.tla, the Lark-tree projection (rule name -> constructor) and the independent recursive-descent parser",
    "technique": "TLC-checked unparse/parse bijection + call-trace validation of the real parser",
}
NOT_YET = {}
CHECKS["C20"] = {
    "category": "model_checking",
    "engine": "tlc-mc",
    "text": "Cpp.tla is an independent token-level C preprocessor (Prosser's algorithm: function-/object-like macros, argument pre-expansion, ##, "
            "hide sets, rescanning) plus the do-while(0) stripping function and the patch rule of the macro table; TLC expands the bundled "
            "definitions (seeded sample of ~230 in quick, all 2181 in thorough) under the bundled patched macro table and compares token-wise "
            "with the bundled resolved lines, checks that no macro invocation survives and names are one-to-one; generated wrapper bodies and "
            "generated macro/patch sets (duplicates, continuations, comments, user-only patches) are run through the real replace_do_while_0 / "
            "patch_macros and validated by TLC; the whole pipeline is regenerated in a scratch copy and compared with the bundled files; generated definitions (bundled macros nested / glued to statement heads) run through the real pipeline; generated header files (guards, QEMU_GENERATE / CONFIG_USER_ONLY blocks, comments, continuation lines) through cleanup_macros against the conditional-inclusion model of Cpp.tla",
    "note": "trusted base: TLC, Cpp.tla, the pp-tokeniser harness/front/cpptok.py; pastes that do not give a valid pp-token (undefined in C11) "
            "are modelled as 'kept apart'",
    "technique": "TLC evaluation of a TLA+ preprocessor specification against the bundled/regenerated artefacts and recorded function results",
}
