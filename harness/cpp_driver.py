#!/venv/bin/python
"""Drives the real preprocessing functions inside a scratch copy of the repository (cwd = scratch, git init-ed;
the code is imported from PYTHONPATH).  usage: cpp_driver.py <job.json> <out.json>
job: {"strip": [text...], "patchsets": [{"macros": [line...], "patches": "file text"}], "regenerate": bool}"""
import json
import os
import sys

import rzilcompiler.Helper as _H

_H.LOG_LEVEL = -1
from rzilcompiler.Configuration import Conf, InputFile  # noqa: E402
from rzilcompiler.Preprocessor.Hexagon.PreprocessorHexagon import PreprocessorHexagon as PP  # noqa: E402


def main():
    job = json.load(open(sys.argv[1]))
    out = {}
    p = PP(Conf.get_path(InputFile.HEXAGON_PP_SHORTCODE_H))
    out["strip"] = []
    for t in job.get("strip", []):
        try:
            out["strip"].append({"ok": True, "res": PP.replace_do_while_0(t)})
        except Exception as e:
            out["strip"].append({"ok": False, "exc": type(e).__name__})
    # the bundled files: cleanup + patch
    try:
        cleaned = p.cleanup_macros()
        out["cleaned"] = cleaned
        out["patched"] = p.patch_macros(list(cleaned))
    except Exception as e:
        out["cleaned_exc"] = "%s: %s" % (type(e).__name__, str(e)[:200])
    # generated macro / patch sets (the patch file of the scratch copy is overwritten, the bundled one restored after)
    pf = Conf.get_path(InputFile.HEXAGON_PP_PATCHES_MACROS_H)
    orig = open(pf).read()
    out["patchsets"] = []
    try:
        for ps in job.get("patchsets", []):
            open(pf, "w").write(ps["patches"])
            try:
                out["patchsets"].append({"ok": True, "res": p.patch_macros(list(ps["macros"]))})
            except Exception as e:
                out["patchsets"].append({"ok": False, "exc": type(e).__name__})
    finally:
        open(pf, "w").write(orig)
    # generated macro header files through cleanup_macros (the three files of the scratch copy are overwritten and restored)
    if job.get("cleansets"):
        paths = {"inc": Conf.get_path(InputFile.HEXAGON_PP_MACROS_INC), "h": Conf.get_path(InputFile.HEXAGON_PP_MACROS_H),
                 "mmvec": Conf.get_path(InputFile.HEXAGON_PP_MACROS_MMVEC_H)}
        saved = {k: open(v).read() for k, v in paths.items()}
        out["cleansets"] = []
        try:
            for cs in job["cleansets"]:
                for k, v in paths.items():
                    open(v, "w").write(cs[k])
                try:
                    out["cleansets"].append({"ok": True, "res": p.cleanup_macros()})
                except Exception as e:
                    out["cleansets"].append({"ok": False, "exc": "%s: %s" % (type(e).__name__, str(e)[:100])})
        finally:
            for k, v in paths.items():
                open(v, "w").write(saved[k])
    if job.get("regenerate"):
        try:
            extra = job.get("extra_shortcode", [])
            if extra:
                # generated definitions are added to the scratch copy's shortcode file, in front of the closing #undef
                sp = Conf.get_path(InputFile.HEXAGON_PP_SHORTCODE_H)
                lines = open(sp).read().split("\n")
                k = max(i for i, l in enumerate(lines) if l.startswith("#undef DEF_SHORTCODE"))
                lines[k:k] = extra
                open(sp, "w").write("\n".join(lines))
            p.run_preprocess_steps()
            out["regen"] = {
                "macros_patched": open(Conf.get_path(InputFile.HEXAGON_PP_MACROS_PATCHED_H)).read(),
                "resolved": open(Conf.get_path(InputFile.HEXAGON_PP_SHORTCODE_RESOLVED_H)).read(),
            }
        except Exception as e:
            out["regen_exc"] = "%s: %s" % (type(e).__name__, str(e)[:300])
    json.dump(out, open(sys.argv[2], "w"))


if __name__ == "__main__":
    main()
