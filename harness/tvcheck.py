"""Generic flow of the translation-validation checks (C02, C03, C05, C06, C08, C09, C15, C16, ...):
   TLC generator module -> programs -> real compiler (both layouts) -> emitted-text reader ->
   TLC (TV.tla: semantics on inputs; Static.tla: sorts + text discipline) -> classification."""
import json
import os
import shutil
import tempfile

from . import tlc, tv, impl
from .front import cast

def nb(tier):
    """number of boundary values per width used by a run (Arch!Bound, ordered by importance)"""
    return 8 if tier == "quick" else 12


def extra(tier):
    """F1 (all-equal boundary) + F2 (independent boundary) + F3 (random) inputs after the grids"""
    return 2 * nb(tier) + (8 if tier == "quick" else 40)


FAM_NIN = {
    "std": lambda tier: extra(tier) + (8 if tier == "quick" else 24),
    "pairs": lambda tier: nb(tier) ** 2 + extra(tier),
    "grid1": lambda tier: 256 * nb(tier) + nb(tier) ** 2 + extra(tier),
    "grid": lambda tier: 2 * 256 * nb(tier) + nb(tier) ** 2 + extra(tier),
    "full8": lambda tier: 65536 + extra(tier),
    "low8": lambda tier: 256 + extra(tier),
    "low5": lambda tier: 32 + extra(tier),
}


def generate(module, seed, tier, extra_env=None, timeout=900):
    """Runs a Gen_* module with TLC; returns the list of generated programs."""
    d = tempfile.mkdtemp(prefix="verif_gen_")
    try:
        out = os.path.join(d, "gen.json")
        env = {"VERIF_SEED": seed, "VERIF_TIER": tier, "GEN_OUT": out}
        if extra_env:
            env.update(extra_env)
        r = tlc.run(module, "Gen.cfg", env=env, workers=1, timeout=timeout)
        if not os.path.exists(out):
            raise tlc.TLCError("generator %s produced nothing:\n%s" % (module, r.out[-3000:]))
        return json.load(open(out)), r
    finally:
        shutil.rmtree(d, ignore_errors=True)


def uniq_reports(reps):
    seen = set()
    out = []
    for r in reps:
        k = json.dumps(r, sort_keys=True)
        if k not in seen:
            seen.add(k)
            out.append(r)
    return out


class TVRun:
    """result of one TV batch"""

    def __init__(self):
        self.programs = 0
        self.accepted = 0
        self.rejected = []  # (id, exc, inner, msg)
        self.unreadable = []
        self.states = 0
        self.transitions = 0
        self.static_states = 0
        self.reports = []  # TV reports
        self.sreports = []  # static reports
        self.cases = {}
        self.comp = {}
        self.agree_states = 0


def run_batch(ctx, programs, il_subs=None, c_subs=None, formats=tv.FORMATS, static=True, timeout=7200,
              fam_override=None, mode="pool"):
    """compile + validate a list of programs.  Does no classification."""
    res = TVRun()
    res.programs = len(programs)
    import time as _t
    _t0 = _t.time()
    comp = tv.compile_programs(programs, formats=formats, mode=mode)
    res.t_compile = _t.time() - _t0
    res.comp = comp
    cases = []
    for p in programs:
        case, st = tv.build_case(p, comp[p["id"]], il_subs or {})
        if case is None:
            if st[0] == "rejected":
                res.rejected.append((p["id"],) + tuple(st[1:]))
            else:
                res.unreadable.append((p["id"],) + tuple(st[1:]))
            continue
        fam = fam_override or p.get("fam", "std")
        if fam == "grid":
            fam = ("full8" if p.get("full8") else "grid") if ctx.tier == "thorough" else "grid1"
        case["fam"] = fam
        case["gk"] = p.get("gk", ["op:s", "op:t"])
        case["nin"] = p.get("nin") or FAM_NIN[fam](ctx.tier)
        if not case["regs"] and not case["imms"] and not p.get("nin"):
            case["nin"] = 2      # a program without operands computes the same on every input state
        case["tags"] = p.get("tags", [])
        cases.append(case)
        res.cases[p["id"]] = (p, case)
    res.accepted = len(cases)
    if not cases:
        return res
    r, s = tv.run_tv(cases, il_subs, c_subs, ctx.devsets(), nb(ctx.tier), ctx.seed, timeout=timeout, static=static)
    res.t_tv = r.wall
    res.t_static = s.wall if s is not None else 0.0
    ctx.notes.append("batch: compile %.1fs, TV %.1fs (%d states), Static %.1fs" % (res.t_compile, r.wall, r.states, res.t_static))
    if r.states == 0 or (r.error_text and "nvariant" not in r.error_text):
        raise tlc.TLCError("TV.tla did not run to completion:\n" + r.out[-4000:])
    res.states, res.transitions = r.states, r.transitions
    res.reports = uniq_reports(r.reports["TVREPORT"])
    res.tv_out = r.out
    if s is not None:
        if s.states == 0 or (s.error_text and "nvariant" not in s.error_text):
            raise tlc.TLCError("Static.tla did not run to completion:\n" + s.out[-4000:])
        res.static_states = s.states
        res.sreports = uniq_reports(s.reports["STREPORT"])
    return res


def classify_tv(ctx, res, shape_findings=True):
    """TV reports -> known findings / violations.  Returns counters."""
    cnt = {"agree": 0, "deviation": 0, "mismatch": 0, "unspec": 0, "diverged": 0}
    bad_cases = {}
    for rep in res.reports:
        pid = rep["id"]
        p, case = res.cases[pid]
        for i, v in enumerate(rep["v"]):
            r = v["r"]
            cnt[r] = cnt.get(r, 0) + 1
            if r == "deviation":
                fs = ctx.finding_by_deviation(v["dev"])
                if fs:
                    for f in fs:
                        ctx.note_known(f, p["text"][:160])
                else:
                    bad_cases.setdefault(pid, ("deviation not listed: %s" % v["dev"], rep, i))
            elif r == "mismatch":
                f = match_shape(ctx, p, v) if shape_findings else None
                if f:
                    ctx.note_known(f, p["text"][:160])
                else:
                    bad_cases.setdefault(pid, ("emitted IL disagrees with the C source", rep, i))
    for pid, (why, rep, i) in bad_cases.items():
        p, case = res.cases[pid]
        ctx.violation(
            "%s: %s [layout %s, input %d: %s]" % (why, p["text"][:200], case["obs"][i]["fmt"], rep["k"],
                                                   json.dumps(rep["v"][i])[:300]),
            {"kind": "tv", "program": p, "input": rep["k"], "report": rep},
        )
    return cnt


def match_shape(ctx, p, v):
    """shape findings: keyed by a predicate of spec/Shapes.tla (evaluated by TLC on the source tree and
    reported with the mismatch) or, for generated programs, by generator tags"""
    shapes = set((v or {}).get("shapes", []))
    tags = set(p.get("tags", []))
    for f in ctx.findings_for("shape"):
        if f.get("shape") and f["shape"] in shapes:
            # bundled instructions are identified by NAME: a shape finding explains a mismatch of a corpus part only if the
            # finding lists that instruction (generated programs are identified by their shape)
            if "#" in p.get("id", "") and p["id"].split("#")[0] not in f.get("names", []):
                continue
            # a finding may name the SIGNATURE of its failure in the report; a mismatch of the same program shape
            # without that signature is a different defect and is not attributed to the finding
            if f.get("sig") == "il-value-not-concrete" and v is not None:
                ex = (v.get("diff") or {}).get("ex") or {}
                il = ex.get("il")
                if not (v.get("diff", {}).get("stuck") or (isinstance(il, dict) and "l" not in il)):
                    continue
            return f
        if f.get("tags") and set(f["tags"]) <= tags:
            return f
    return None


def samples_of(res, n=3):
    out = []
    for pid, (p, case) in list(res.cases.items())[:n]:
        out.append({"id": pid, "c_text": p["text"], "inputs": case["nin"], "family": case["fam"]})
    return out


# ----------------------------------------------------------------------------------------------
# generated sub-routines (C03 argument/return contexts, C06, C08)

def sub_to_c(s):
    """generated sub-routine record [name, ret, void, params[{n,t}], body] -> registration arguments"""
    from .front import cast as _c
    return {
        "name": s["name"],
        "ret_c": "void" if s["void"] else _c.ctype(s["ret"]),
        "params_c": ["%s %s" % (_c.ctype(p["t"]), p["n"]) for p in s["params"]],
        "body_text": _c.program_text(s["body"]),
    }


def prepare_subs(gen_subs, with_bundled=True):
    """-> (il_subs, c_subs, reg) : observed IL bodies and C sources of bundled + generated sub-routines;
    reg = registration steps to attach to every program"""
    from . import corpus_tv, impl as _impl
    from .front import emitted as _em
    reg = [sub_to_c(s) for s in gen_subs]
    il_subs, c_subs = {}, {}
    steps = [{"op": "addsub", "inst": 0, "name": r["name"], "ret": r["ret_c"], "params": r["params_c"], "body": r["body_text"]} for r in reg]
    bundled = {}
    if with_bundled:
        from . import corpus as _corpus
        bundled = _corpus.load_sub_routines()
        steps += [{"op": "subdef", "inst": 0, "name": n} for n in bundled]
    res = _impl.run_jobs([{"id": "subs", "steps": steps}])["subs"]["res"]
    names = [r["name"] for r in reg] + list(bundled)
    defs = {}
    errors = {}
    for n, r in zip(names, res):
        if not r.get("ok"):
            errors[n] = r
        else:
            defs[n] = r
    tab, evs, errs = corpus_tv.il_subs_table(defs)
    errors.update(errs)
    for s in gen_subs:
        c_subs[s["name"]] = {"params": [{"n": p["n"], "t": p["t"], "kind": "val"} for p in s["params"]],
                             "ret": s["ret"], "void": s["void"], "body": s["body"]}
    for n, r in bundled.items():
        cs = corpus_tv.c_sub(n, r)
        c_subs[n] = {k: v for k, v in cs.items() if k != "kind"}
    return tab, c_subs, reg, errors, evs
