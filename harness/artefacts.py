"""Shared artefact sets for the per-artefact properties (C10 sorts, C11 text form/metadata, C12 ownership,
C13 attributes, C16 layouts): accepted corpus parts + sub-routines + generated programs, both layouts."""
import json
import re
import os
import shutil
import tempfile

from . import tvcheck, tv, tlc, corpus_tv
from .checks import c01


class Artefacts:
    def __init__(self):
        self.cases = []
        self.il_subs = {}
        self.c_subs = {}
        self.texts = {}
        self.info = {}
        self.rejected = 0


def collect(ctx, n_corpus=(100, None), gen_modules=(("Gen_C02.tla", 10),), extra_programs=(), gen_kind="stmt", keep=None):
    """n_corpus: (quick sample size, thorough: None = everything); gen_modules: (module, keep every k-th in quick)"""
    art = Artefacts()
    cp = corpus_tv.Corpus()
    names = sorted(cp.beh) if (ctx.tier == "thorough" and n_corpus[1] is None) else cp.sample(
        n_corpus[0] if ctx.tier == "quick" else (n_corpus[1] or n_corpus[0]), ctx.seed)
    cases, srcs, il_subs, meta, info = c01.build(cp, names, ctx)
    art.cases = cases
    art.il_subs = il_subs
    art.c_subs = {n: {k: v for k, v in s.items() if k != "kind"} for n, s in cp.csubs.items()}
    art.info = dict(info, corpus_instructions=len(names))
    art.cp = cp
    art.names = names
    art.meta = meta
    progs = list(extra_programs)
    for gm in gen_modules:
        mod, step = gm[0], gm[1]
        kind_of_module = gm[2] if len(gm) > 2 else None      # "insn": compiled as an instruction part (flags / attributes come back)
        ps, _ = tvcheck.generate(mod, ctx.seed, ctx.tier)
        if isinstance(ps, dict):
            ps = [p for p in ps["programs"] if not any(n.get("k") == "call" for n in _nodes(p["body"]))]
        if ctx.tier == "quick":
            ps = ps[::step]
        else:
            ps = ps[::max(1, step // 4)]
        if isinstance(ps, dict):
            ps = ps["programs"]
        if kind_of_module:
            for q in ps:
                q["kind"] = kind_of_module
        progs.extend(ps)
    # explicit predicate registers above P3 do not exist in the ISA (the attribute WRITE_P<n> is defined for n = 0..3)
    progs = [p for p in progs if not ((gen_kind == "insn" or p.get("kind") == "insn") and p["id"].startswith("ex-") and re.match(r"^P(\d+)$", p["id"].split("-")[-1])
                                      and int(p["id"].split("-")[-1][1:]) > 3)]
    if keep:
        progs = [p for p in progs if keep(p)]
    for p in progs:
        p.setdefault("kind", gen_kind)
    if progs:
        comp = tv.compile_programs(progs)
        for p in progs:
            case, st = tv.build_case(p, comp[p["id"]], il_subs)
            if case is None:
                if st[0] == "unreadable":
                    ctx.violation("emitted text unreadable (%s): %s" % (st[2][:120], p["text"][:160]), {"kind": "unreadable", "program": p})
                art.rejected += 1
                continue
            case["fam"] = "std"
            case["gk"] = []
            case["nin"] = tvcheck.FAM_NIN["std"](ctx.tier)
            case["tags"] = p.get("tags", [])
            case["text"] = p["text"]
            art.cases.append(case)
    return art


def _nodes(body):
    from .front import cast as _c
    out = []
    _c.walk(body, lambda n: out.append(n))
    return out


def run_static(art, timeout=3600):
    ss = []
    for b in range(0, max(1, len(art.cases)), tv.BATCH):
        d = tempfile.mkdtemp(prefix="verif_static_")
        try:
            f = os.path.join(d, "tv.json")
            tv.dump_tv(f, art.cases[b:b + tv.BATCH], art.il_subs, art.c_subs, [])
            s = tlc.run("Static.tla", "Static.cfg", env={"TV_FILE": f}, timeout=timeout, tags=("STREPORT",))
            if s.states == 0 or (s.error_text and "nvariant" not in s.error_text):
                raise tlc.TLCError("Static.tla did not run to completion:\n" + s.out[-4000:])
            ss.append(s)
        finally:
            shutil.rmtree(d, ignore_errors=True)
    s = tlc.merge(ss)
    return s, tvcheck.uniq_reports(s.reports["STREPORT"])


def n_artefacts(art):
    return sum(len(c["obs"]) for c in art.cases)


def case_text(art, cid):
    for c in art.cases:
        if c["id"] == cid:
            return c.get("text", "")[:200]
    return ""
