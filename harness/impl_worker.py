#!/venv/bin/python
"""Runs the real rzil-compiler (from /repo's working tree) on scripted jobs.

Executed with /venv/bin/python, cwd = repository root (resource paths are resolved through
`git rev-parse --show-toplevel` of the cwd), PYTHONPATH = repository root.

usage: impl_worker.py <jobs.json> <results.json>

jobs.json: {"mode": "pool" | "fresh", "procs": N, "jobs": [job, ...]}
job      : {"id": ..., "steps": [step, ...]}
step     : {"op": "new", "inst": k, "format": "READ_STATEMENTS" | "EXEC_CLASSES"}
           {"op": "stmt", "inst": k, "code": "..."}                      compile_c_stmt
           {"op": "insn", "inst": k, "name": "...", "behaviors": [..]}   parser.parse + transform_insn
           {"op": "addsub", "inst": k, "name", "ret", "params", "body"}  add_sub_routine
           {"op": "subdef", "inst": k, "name"}                           get_sub_routine(name).il_init(DEF)
           {"op": "proj", "inst": k}                                     projected internal state (diagnostic)
pool mode : instances 0 (READ_STATEMENTS) and 1 (EXEC_CLASSES) exist already in every worker and
            are long-lived; fresh mode: every job runs in its own forked process which starts
            from a process image in which no Compiler has been constructed yet.
Only public API is used for everything a verdict depends on; "proj" reads internals and is optional.
"""
import json
import os
import sys
import traceback
import multiprocessing as mp

sys.setrecursionlimit(10000)

import rzilcompiler.Helper as _H

_H.LOG_LEVEL = -1  # silence log()

from rzilcompiler.Compiler import Compiler, RZILInstruction  # noqa: E402
from rzilcompiler.ArchEnum import ArchEnum  # noqa: E402
from rzilcompiler.Parser import ParsedInsn  # noqa: E402
from rzilcompiler.Transformer.RZILTransformer import CodeFormat  # noqa: E402
from rzilcompiler.Transformer.Hybrids.SubRoutine import SubRoutineInitType  # noqa: E402

INST = {}


def exc_info(e):
    name = type(e).__name__
    inner = getattr(e, "orig_exc", None)
    return {
        "ok": False,
        "exc": name,
        "inner": type(inner).__name__ if inner is not None else None,
        "msg": (str(inner) if inner is not None else str(e))[:400],
    }


def proj(c):
    """Projection of the internal state that the Lifecycle specification talks about."""
    try:
        t = c.transformer
        h = t.il_ops_holder
        e = t.ext
        return {
            "flags": {
                "cond": bool(e.is_conditional),
                "new": bool(e.uses_new),
                "mw": bool(e.writes_mem),
                "mr": bool(e.reads_mem),
                "br": bool(e.branches),
                "wp": bool(e.writes_predicate),
            },
            "preds": sorted(int(x) for x in e.preds_written),
            "read": sorted(h.read_ops.keys()),
            "exec": sorted(h.exec_ops.keys()),
            "write": sorted(h.write_ops.keys()),
            "pending": sorted(h.hybrid_effect_dict.keys()),
            "imm": len(t.imm_set_effect_list),
            "op_count": h.op_count,
            "hyb_count": h.hybrid_op_count,
            "subs": sorted(c.sub_routines.keys()),
        }
    except Exception as ex:  # internal layout changed: diagnostic only
        return {"unavailable": type(ex).__name__}


def transform_only(c, st, asts):
    pi = ParsedInsn(st["name"], asts, st["behaviors"])
    try:
        ri = c.transform_insn(st["name"], pi)
    except Exception as e:
        r = exc_info(e)
        r["stage"] = "transform"
        return r
    return {
        "ok": True,
        "rzil": list(ri.rzil),
        "meta": [list(m) for m in ri.meta],
        "needs_hi": [bool(x) for x in ri.needs_hi],
        "needs_pkt": [bool(x) for x in ri.needs_pkt],
        "getter": {k2: list(v) for k2, v in ri.getter_rzil.items()},
        "name": ri.name,
    }


def run_step(st):
    op = st["op"]
    k = st.get("inst", 0)
    try:
        if op == "new":
            INST[k] = Compiler(ArchEnum.HEXAGON, CodeFormat[st.get("format", "READ_STATEMENTS")])
            return {"ok": True}
        if op == "insn" and "insts" in st:
            # parse once (instance-independent), transform on every listed instance
            c0 = INST[st["insts"][0]]
            try:
                asts = [c0.parser.parse(b) for b in st["behaviors"]]
            except Exception as e:
                r = exc_info(e)
                r["stage"] = "parse"
                return {"ok": True, "multi": [r for _ in st["insts"]]}
            out = []
            for kk in st["insts"]:
                out.append(transform_only(INST[kk], st, asts))
            return {"ok": True, "multi": out}
        c = INST[k]
        if op == "stmt":
            return {"ok": True, "text": c.compile_c_stmt(st["code"])}
        if op == "insn":
            try:
                asts = [c.parser.parse(b) for b in st["behaviors"]]
            except Exception as e:
                r = exc_info(e)
                r["stage"] = "parse"
                return r
            pi = ParsedInsn(st["name"], asts, st["behaviors"])
            try:
                ri = c.transform_insn(st["name"], pi)
            except Exception as e:
                r = exc_info(e)
                r["stage"] = "transform"
                return r
            return {
                "ok": True,
                "rzil": list(ri.rzil),
                "meta": [list(m) for m in ri.meta],
                "needs_hi": [bool(x) for x in ri.needs_hi],
                "needs_pkt": [bool(x) for x in ri.needs_pkt],
                "getter": {k2: list(v) for k2, v in ri.getter_rzil.items()},
                "name": ri.name,
            }
        if op == "probe":
            # catalogue check: what is in the transformer at the moment reset() is called for this text
            t = c.transformer
            seen = {}
            orig = t.reset

            def wrapped():
                if "p" not in seen:
                    seen["p"] = proj(c)
                return orig()

            t.reset = wrapped
            try:
                try:
                    c.compile_c_stmt(st["code"])
                    ok = True
                except Exception:
                    ok = False
            finally:
                t.reset = orig
            return {"ok": ok, "before_reset": seen.get("p", {})}
        if op == "addsub":
            c.add_sub_routine(st["name"], st["ret"], st["params"], st["body"])
            sr = c.get_sub_routine(st["name"])
            return {
                "ok": True,
                "def": sr.il_init(SubRoutineInitType.DEF),
                "decl": sr.il_init(SubRoutineInitType.DECL),
            }
        if op == "subdef":
            sr = c.get_sub_routine(st["name"])
            return {
                "ok": True,
                "def": sr.il_init(SubRoutineInitType.DEF),
                "decl": sr.il_init(SubRoutineInitType.DECL),
            }
        if op == "proj":
            return {"ok": True, "proj": proj(c)}
        return {"ok": False, "exc": "HarnessError", "msg": f"unknown op {op}"}
    except Exception as e:
        return exc_info(e)


def run_job(job):
    out = []
    for st in job["steps"]:
        r = run_step(st)
        if job.get("proj_each"):
            k = st.get("inst", 0)
            if k in INST:
                r["proj"] = proj(INST[k])
        out.append(r)
    return {"id": job["id"], "res": out}


def pool_init():
    INST[0] = Compiler(ArchEnum.HEXAGON, CodeFormat.READ_STATEMENTS)
    INST[1] = Compiler(ArchEnum.HEXAGON, CodeFormat.EXEC_CLASSES)


def fresh_child(job, conn):
    try:
        conn.send(run_job(job))
    except Exception:
        conn.send({"id": job["id"], "res": [], "harness_error": traceback.format_exc()})
    conn.close()


def run_fresh(jobs, procs):
    ctx = mp.get_context("fork")
    results = []
    pending = list(jobs)
    running = []
    while pending or running:
        while pending and len(running) < procs:
            job = pending.pop(0)
            a, b = ctx.Pipe(False)
            p = ctx.Process(target=fresh_child, args=(job, b))
            p.start()
            b.close()
            running.append((p, a, job))
        still = []
        for p, a, job in running:
            if a.poll(0.01):
                try:
                    results.append(a.recv())
                except EOFError:
                    results.append({"id": job["id"], "res": [], "harness_error": "child died"})
                p.join()
            elif not p.is_alive():
                if a.poll(0.01):
                    results.append(a.recv())
                else:
                    results.append({"id": job["id"], "res": [], "harness_error": "child died"})
                p.join()
            else:
                still.append((p, a, job))
        running = still
    return results


def main():
    spec = json.load(open(sys.argv[1]))
    jobs = spec["jobs"]
    procs = int(spec.get("procs") or os.cpu_count() or 4)
    if spec.get("mode", "pool") == "fresh":
        results = run_fresh(jobs, procs)
    else:
        procs = max(1, min(procs, len(jobs)))
        ctx = mp.get_context("fork")
        with ctx.Pool(procs, initializer=pool_init) as pool:
            results = pool.map(run_job, jobs, chunksize=max(1, len(jobs) // (procs * 8)))
    json.dump({"results": results}, open(sys.argv[2], "w"))


if __name__ == "__main__":
    main()
