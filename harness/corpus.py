"""Own loader of the bundled resources (independent of the repository's regexes)."""
import json
import os

REPO = os.environ.get("VERIF_REPO", "/repo")
MARK = "__COMPOUND_PART1__"


def res(path, repo=None):
    return os.path.join(repo or REPO, "Resources", "Hexagon", path)


def split_line(line):
    """insn(NAME, BODY) -> (NAME, BODY); None for preprocessor lines; ValueError if malformed."""
    s = line.rstrip("\n")
    if s.startswith("#"):
        return None
    s = s.rstrip()
    if not s.startswith("insn(") or not s.endswith(")"):
        raise ValueError("malformed line: %r" % s[:60])
    inner = s[len("insn("):-1]
    k = inner.find(", ")
    if k < 0:
        raise ValueError("malformed line: %r" % s[:60])
    return inner[:k], inner[k + 2:]


def split_compound(body):
    """{ pre MARK {p1} MARK rest } -> ('{p1}', '{rest}') by plain string search."""
    i = body.find(MARK)
    j = body.find(MARK, i + len(MARK))
    p1 = body[i + len(MARK):j]
    rest = body[j + len(MARK):]
    assert body.rstrip().endswith("}")
    rest = rest.rstrip()[:-1]
    return p1, "{" + rest + "}"


def load_behaviors(repo=None):
    out = {}
    with open(res("Preprocessor/shortcode_resolved.h", repo)) as f:
        for line in f:
            if not line.strip():
                continue
            r = split_line(line)
            if r is None:
                continue
            name, body = r
            if MARK in body:
                out[name] = list(split_compound(body))
            else:
                out[name] = [body]
    return out


def load_sub_routines(repo=None):
    return json.load(open(res("sub_routines.json", repo)))["sub_routines"]


def load_noped(repo=None):
    return json.load(open(res("noped_insns.json", repo)))["noped"]


def load_macros(repo=None):
    return json.load(open(res("qemu_rzil_macros.json", repo)))["macros"]
