#!/venv/bin/python
"""Calls the real c11_cast / promoted_type on every ordered pair of the width set and logs events
(see spec/Trace_CTypes.tla).  usage: ctypes_driver.py <widths.json> <events.json>"""
import json
import sys

from rzilcompiler.Transformer.ValueType import ValueType, VTGroup, c11_cast, promoted_type


def snap(t):
    return (bool(t._signed), int(t._bit_width), t.group, t.external_type, t.format)


def main():
    widths = json.load(open(sys.argv[1]))
    types = [(s, w) for w in widths for s in (True, False)]
    ev = []
    for (sa, wa) in types:
        for (sb, wb) in types:
            a = ValueType(sa, wa)
            b = ValueType(sb, wb)
            a0, b0 = snap(a), snap(b)
            fl = 0
            try:
                ra, rb = c11_cast(a, b)
                if snap(a) != a0:
                    fl |= 1
                if snap(b) != b0:
                    fl |= 2
                if ra is a and snap(ra)[:2] != a0[:2]:
                    fl |= 4
                if rb is b and snap(rb)[:2] != b0[:2]:
                    fl |= 8
                # results must not share mutable state with the arguments when they differ in value
                if (ra is not a and (ra.signed, ra.bit_width) != (sa, wa)) or True:
                    pass
                ra2, rb2 = c11_cast(ValueType(sa, wa), ValueType(sb, wb))
                if (ra2.signed, ra2.bit_width, rb2.signed, rb2.bit_width) != (ra.signed, ra.bit_width, rb.signed, rb.bit_width):
                    fl |= 16
                ev.append(["c", int(sa), wa, int(sb), wb, int(ra.signed), ra.bit_width, int(rb.signed), rb.bit_width, fl])
            except Exception:
                ev.append(["c", int(sa), wa, int(sb), wb, 0, 0, 0, 0, 32])
    # --- argument objects as the compiler really passes them: with group flags set (CONST, BOOL,
    # HYBRID_LVAR), the same object on both sides, and callers that change a *returned* type in place
    # afterwards (RZILTransformer does: t.signed = False, t.group |= CONST, h_tmp_type.group |= ...).
    # Flag 64: changing a returned object (one that is not the argument itself) changed an argument or
    # the result of a later identical call, i.e. the function hands out shared state.
    groups = [VTGroup.PURE | VTGroup.CONST, VTGroup.PURE | VTGroup.BOOL, VTGroup.PURE | VTGroup.HYBRID_LVAR]
    sub = [t for t in types if t[1] in (1, 8, 16, 31, 32, 33, 64, 128, 2048) or t[1] == widths[len(widths) // 2]]

    def mk(s, w, g):
        t = ValueType(s, w)
        if g is not None:
            t.group = g
        return t

    for gi, (ga, gb) in enumerate([(None, None), (groups[0], None), (None, groups[0]), (groups[1], groups[1]),
                                   (groups[2], groups[0]), (groups[1], None)]):
        for (sa, wa) in sub:
            for (sb, wb) in sub:
                a, b = mk(sa, wa, ga), mk(sb, wb, gb)
                a0, b0 = snap(a), snap(b)
                fl = 0
                try:
                    ra, rb = c11_cast(a, b)
                    if snap(a) != a0:
                        fl |= 1
                    if snap(b) != b0:
                        fl |= 2
                    res = (int(ra.signed), ra.bit_width, int(rb.signed), rb.bit_width)
                    # the caller changes what it was handed
                    for r, arg in ((ra, a), (rb, b)):
                        if r is not a and r is not b:
                            r.signed = not r.signed
                            r.bit_width = r.bit_width + 3
                            r.group |= VTGroup.HYBRID_LVAR
                    if snap(a) != a0 or snap(b) != b0:
                        fl |= 64
                    ra2, rb2 = c11_cast(mk(sa, wa, ga), mk(sb, wb, gb))
                    if (int(ra2.signed), ra2.bit_width, int(rb2.signed), rb2.bit_width) != res:
                        fl |= 64
                    ev.append(["c", int(sa), wa, int(sb), wb, res[0], res[1], res[2], res[3], fl])
                except Exception:
                    ev.append(["c", int(sa), wa, int(sb), wb, 0, 0, 0, 0, 32])
    for (s, w) in types:                         # one object on both sides
        for g in [None] + groups:
            t = mk(s, w, g)
            t0 = snap(t)
            fl = 0
            try:
                ra, rb = c11_cast(t, t)
                if snap(t) != t0:
                    fl |= 3
                ev.append(["c", int(s), w, int(s), w, int(ra.signed), ra.bit_width, int(rb.signed), rb.bit_width, fl])
            except Exception:
                ev.append(["c", int(s), w, int(s), w, 0, 0, 0, 0, 32])
    for (s, w) in types:                         # promotion with flags and with a caller that changes the result
        for g in [None] + groups:
            t = mk(s, w, g)
            t0 = snap(t)
            fl = 0
            try:
                r = promoted_type(t)
                if snap(t) != t0:
                    fl |= 1
                res = (int(r.signed), r.bit_width)
                if r is not t:
                    r.signed = not r.signed
                    r.bit_width = r.bit_width + 3
                    r.group |= VTGroup.CONST
                    if snap(t) != t0:
                        fl |= 64
                r2 = promoted_type(mk(s, w, g))
                if (int(r2.signed), r2.bit_width) != res:
                    fl |= 64
                ev.append(["p", int(s), w, res[0], res[1], fl])
            except Exception:
                ev.append(["p", int(s), w, 0, 0, 32])
    for (s, w) in types:
        t = ValueType(s, w)
        t0 = snap(t)
        fl = 0
        try:
            r = promoted_type(t)
            if snap(t) != t0:
                fl |= 1
            if r is t and (r.signed, r.bit_width) != (s, w):
                fl |= 4
            r2 = promoted_type(ValueType(s, w))
            if (r2.signed, r2.bit_width) != (r.signed, r.bit_width):
                fl |= 16
            # mutating the result must not change the argument (no shared object unless identical type)
            ev.append(["p", int(s), w, int(r.signed), r.bit_width, fl])
        except Exception:
            ev.append(["p", int(s), w, 0, 0, 32])
    json.dump({"events": ev}, open(sys.argv[2], "w"))


if __name__ == "__main__":
    main()
