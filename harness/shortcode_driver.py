#!/venv/bin/python
"""Calls the real split_resolved_shortcode / split_compounds / load_insn_behavior on generated cases.
usage: shortcode_driver.py <cases.json> <events.json> <verif root>"""
import json
import os
import subprocess
import sys
import tempfile

sys.path.insert(0, sys.argv[3])
from harness.front import cparse, cast  # noqa: E402
from rzilcompiler.Preprocessor.Hexagon.PreprocessorHexagon import PreprocessorHexagon as PP  # noqa: E402


def balanced(s):
    d = 0
    for ch in s:
        if ch == "{":
            d += 1
        elif ch == "}":
            d -= 1
            if d < 0:
                return False
    return d == 0 and s.strip().startswith("{") and s.strip().endswith("}")


def stmts_of(part):
    """statement sequence of a returned part (plain nested blocks dissolved)"""
    return [cast.ps(x) for x in cast.flat_stmts(cparse.parse_body(part))]


def main():
    cases = json.load(open(sys.argv[1]))
    ev = []
    for i, c in enumerate(cases):
        if c["kind"] == "line":
            try:
                n, b = PP.split_resolved_shortcode(c["line"] + "\n")
                ev.append({"i": i + 1, "out": "ok", "name": n, "body": b})
            except Exception as e:
                ev.append({"i": i + 1, "out": "raised", "name": "", "body": "", "exc": type(e).__name__})
        else:
            try:
                p1, p2 = PP.split_compounds(c["body"])
                try:
                    st = stmts_of(p1) + stmts_of(p2)
                    bal = balanced(p1) and balanced(p2)
                except Exception:
                    st, bal = [], False
                ev.append({"i": i + 1, "out": "ok", "stmts": st, "balanced": bal, "p1": p1, "p2": p2})
            except Exception as e:
                ev.append({"i": i + 1, "out": "raised", "stmts": [], "balanced": False, "exc": type(e).__name__})
    # file level: load_insn_behavior on a generated resolved file in a scratch git directory
    loads = []
    wf = [c for c in cases if c["kind"] == "line" and c["wf"] and "__COMPOUND_PART1__" not in c["line"]]
    sel = wf[:: max(1, len(wf) // 200)]
    byname = {}
    for c in sel:
        byname[c["name"]] = c  # later lines with the same name win, as in a dict
    mal = [c for c in cases if c["kind"] == "line" and not c["wf"]]
    for label, lines, expect in [("wellformed", ["#line 1 \"x\""] + [c["line"] for c in sel], "ok")] + \
            [("malformed-%d" % c.get("variant", 0), [sel[0]["line"], c["line"], sel[1]["line"]], "raise") for c in mal[::3]]:
        d = tempfile.mkdtemp(prefix="verif_sc_")
        try:
            os.makedirs(os.path.join(d, "Resources/Hexagon/Preprocessor"))
            with open(os.path.join(d, "Resources/Hexagon/Preprocessor/shortcode_resolved.h"), "w") as f:
                f.write("\n".join(lines) + "\n")
            subprocess.run(["git", "init", "-q"], cwd=d, check=True)
            code = ("import json,sys\n"
                    "from rzilcompiler.Preprocessor.Hexagon.PreprocessorHexagon import PreprocessorHexagon as PP\n"
                    "import rzilcompiler.Helper as H\nH.LOG_LEVEL=-1\n"
                    "p=PP('x'); PP.behaviors=dict()\n"
                    "try:\n p.load_insn_behavior(); print(json.dumps({'out':'ok','beh':p.behaviors}))\n"
                    "except Exception as e:\n print(json.dumps({'out':'raised','exc':type(e).__name__}))\n")
            r = subprocess.run([sys.executable, "-c", code], cwd=d, stdout=subprocess.PIPE, stderr=subprocess.PIPE,
                               env=dict(os.environ, PYTHONPATH=os.getcwd()))
            last = [l for l in r.stdout.decode().splitlines() if l.startswith("{")]
            res = json.loads(last[-1]) if last else {"out": "crash", "err": r.stderr.decode()[-300:]}
            if expect == "ok":
                good = res.get("out") == "ok" and res.get("beh") == {n: [c["body"]] for n, c in byname.items()}
            else:
                good = res.get("out") == "raised"
            loads.append({"label": label, "expect": expect, "out": res.get("out"), "good": bool(good)})
        finally:
            subprocess.run(["rm", "-rf", d])
    json.dump({"events": ev, "loads": loads}, open(sys.argv[2], "w"))


if __name__ == "__main__":
    main()
