-------------------------------- MODULE EmitC --------------------------------
(***************************************************************************)
(* The emitted C function body as a state machine over its statements      *)
(* (C11: well-formed body, declared-before-use, declared-once; C12: IL     *)
(* node ownership is linear).  Events come from the emitted-text reader:   *)
(*   [ev |-> "Param", name, kind]       kind in {"param_pure","param_ext"} *)
(*   [ev |-> "Decl", kind, name, valid, uses, callees]                     *)
(*        kind in {"pure","bool","effect","hexop_ptr","hexop_val","prologue"}*)
(*        uses: <<[n |-> id, m |-> "raw"|"dup"|"addr"|"member">>           *)
(*   [ev |-> "Return", uses, callees]                                      *)
(*        init: the initialiser of an effect with DUP(x) read as x; gcc:    *)
(*        the variable is the effect of a GCC statement-expression          *)
(* State: kinds (declared name -> kind), rawc / dupc (use counters),       *)
(*        bad (first violated clause, "" if none), done, inits, gccs.      *)
(*                                                                         *)
(* Named deviation StmtExprTwin (known finding KF-D12-stmtexpr-twin): the  *)
(* statement of a value-producing statement-expression is built twice --   *)
(* once as the statement's own effect, once more (operands DUP'ed) as the  *)
(* statement-expression's effect; only the second is sequenced.  An        *)
(* unconsumed effect that has such a twin is reported as "own-twin:", any  *)
(* other unconsumed variable as "own:".                                    *)
(***************************************************************************)
EXTENDS Naturals, Sequences, FiniteSets, TLC

ILKinds == {"pure", "bool", "effect"}
OwnedKinds == {"pure", "bool", "effect", "param_pure"}

Init0(ambient) ==
    [kinds |-> [n \in ambient |-> "ambient"], rawc |-> <<>>, dupc |-> <<>>, bad |-> "", done |-> FALSE, nret |-> 0,
     inits |-> <<>>, gccs |-> {}]

Flag(st, why) == IF st.bad = "" THEN [st EXCEPT !.bad = why] ELSE st

CountOf(f, n) == IF n \in DOMAIN f THEN f[n] ELSE 0

RECURSIVE UseAll(_, _, _, _)
\* account for the uses of one statement, in order
UseAll(st, uses, i, known) ==
    IF i > Len(uses) THEN st
    ELSE
    LET u == uses[i]
        n == u.n
        declared == n \in DOMAIN st.kinds
        kind == IF declared THEN st.kinds[n] ELSE "none"
        s1 ==
          IF ~declared THEN
              (IF n \in known THEN st ELSE Flag(st, "use of undeclared identifier " \o n))
          ELSE IF u.m = "raw" THEN
              (IF kind \in OwnedKinds THEN
                   LET s == [st EXCEPT !.rawc = (n :> CountOf(st.rawc, n) + 1) @@ st.rawc]
                   IN  IF CountOf(st.rawc, n) >= 1 THEN Flag(s, "own: second un-DUP'ed use of " \o n) ELSE s
               ELSE IF kind = "hexop_val" THEN Flag(st, "HexOp value " \o n \o " used without &")
               ELSE st)
          ELSE IF u.m = "dup" THEN
              (IF kind \in {"pure", "bool", "param_pure"}
               THEN [st EXCEPT !.dupc = (n :> CountOf(st.dupc, n) + 1) @@ st.dupc]
               ELSE Flag(st, "own: DUP of " \o n \o " which is " \o kind))
          ELSE IF u.m = "addr" THEN
              (IF kind = "hexop_val" THEN st ELSE Flag(st, "& applied to " \o n \o " which is " \o kind))
          ELSE st
    IN  UseAll(s1, uses, i + 1, known)

CalleesOk(st, callees, allowed) ==
    LET bad == {callees[i] : i \in 1..Len(callees)} \ allowed
    IN  IF bad = {} THEN st ELSE Flag(st, "call of unknown function/macro " \o (CHOOSE x \in bad : TRUE))

\* one statement.  known: identifiers that need no declaration (enum constants, true/false);
\* allowed: callable names (IL constructors, plugin macros, hex_<sub-routine>)
Step(st, ev, known, allowed) ==
    IF st.done THEN Flag(st, "statement after return")
    ELSE IF ev.ev = "Param" THEN
        IF ev.name \in DOMAIN st.kinds /\ st.kinds[ev.name] # "ambient" THEN Flag(st, "parameter declared twice: " \o ev.name)
        ELSE [st EXCEPT !.kinds = (ev.name :> ev.kind) @@ st.kinds]
    ELSE IF ev.ev = "Decl" THEN
        LET s0 == IF ~ev.valid THEN Flag(st, "invalid identifier " \o ev.name) ELSE st
            s1 == IF ev.name \in DOMAIN s0.kinds THEN Flag(s0, "declared twice: " \o ev.name) ELSE s0
            s2 == UseAll(s1, ev.uses, 1, known)
            s3 == CalleesOk(s2, ev.callees, allowed)
            hasInit == "init" \in DOMAIN ev /\ ev.init # ""
        IN  [s3 EXCEPT !.kinds = (ev.name :> ev.kind) @@ s3.kinds,
                       !.inits = IF hasInit THEN (ev.name :> ev.init) @@ s3.inits ELSE s3.inits,
                       !.gccs = IF hasInit /\ ev.gcc THEN s3.gccs \cup {ev.name} ELSE s3.gccs]
    ELSE IF ev.ev = "Return" THEN
        LET s2 == UseAll(st, ev.uses, 1, known)
            s3 == CalleesOk(s2, ev.callees, allowed)
            unused == {n \in DOMAIN s3.kinds : s3.kinds[n] \in ILKinds /\ CountOf(s3.rawc, n) = 0}
            twins == {n \in unused : n \in DOMAIN s3.inits /\ n \notin s3.gccs /\
                                     \E g \in s3.gccs : s3.inits[g] = s3.inits[n] /\ CountOf(s3.rawc, g) = 1}
            s4 == IF unused = {} THEN s3
                  ELSE IF unused \ twins # {}
                  THEN Flag(s3, "own: initialised but never consumed: " \o (CHOOSE n \in unused \ twins : TRUE))
                  ELSE Flag(s3, "own-twin: statement effect built twice, first copy never consumed: " \o (CHOOSE n \in twins : TRUE))
        IN  [s4 EXCEPT !.done = TRUE]
    ELSE Flag(st, "unknown event")

RECURSIVE RunEvents(_, _, _, _, _)
RunEvents(st, evs, i, known, allowed) ==
    IF i > Len(evs) THEN (IF st.done THEN st ELSE Flag(st, "no return statement"))
    ELSE RunEvents(Step(st, evs[i], known, allowed), evs, i + 1, known, allowed)
=============================================================================
