SPECIFICATION Spec
CONSTANTS Insts = {1, 2}
NB = 12
MaxHist = 12
D1_PredsClassLevel = FALSE
D2_NoResetOnFailure = FALSE
INVARIANT DumpHist
CHECK_DEADLOCK FALSE
