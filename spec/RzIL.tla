-------------------------------- MODULE RzIL --------------------------------
(***************************************************************************)
(* Semantics of the RzIL terms the compiler emits (Rizin core theory as    *)
(* documented, DESIGN.md 5.1), over the machine state of Arch.tla.         *)
(* Terms are records [op |-> NAME, args |-> <<...>>, ...attributes] as     *)
(* produced by the emitted-text reader (all C variables inlined, DUP       *)
(* erased: a pure is a term, evaluated where it is used).                  *)
(*                                                                         *)
(*   Eval(t, st)       value of a pure in state st                         *)
(*   Exec(e, st, subs) state after an effect (loops bounded by st.fuel)    *)
(*                                                                         *)
(* Evaluation is total: ill-sorted applications and reads of undefined     *)
(* variables give a poison value [u |-> reason].                           *)
(***************************************************************************)
EXTENDS Arch, Macros

KeyOf(rd) ==
    CASE rd.kind = "isa" -> "op:" \o rd.letter
      [] rd.kind = "nreg" -> "op:" \o rd.letter
      [] rd.kind = "explicit" -> "ex:" \o rd.cls \o ":" \o ToString(rd.num)
      [] rd.kind = "alias" -> "al:" \o rd.alias
      [] OTHER -> "??"

IsXLetter(rd) == rd.kind = "isa" /\ rd.letter \in {"x", "y", "z"}

BothBV(a, b) == IsBVv(a) /\ IsBVv(b) /\ a.w = b.w
Poison2(a, b) == IF IsPoison(a) THEN a ELSE IF IsPoison(b) THEN b ELSE U("sort")

BinBV(F(_, _), a, b) == IF BothBV(a, b) THEN F(a, b) ELSE Poison2(a, b)
ShiftBV(F(_, _), a, b) == IF IsBVv(a) /\ IsBVv(b) THEN F(a, b) ELSE Poison2(a, b)
CmpBV(F(_, _), a, b) == IF BothBV(a, b) THEN B(F(a, b)) ELSE Poison2(a, b)
UnBV(F(_), a) == IF IsBVv(a) THEN F(a) ELSE IF IsPoison(a) THEN a ELSE U("sort")
BinB(F(_, _), a, b) == IF IsBool(a) /\ IsBool(b) THEN B(F(a.b, b.b)) ELSE Poison2(a, b)

LAnd(x, y) == x /\ y
LOr(x, y) == x \/ y
LXor(x, y) == x # y
Ugt(a, b) == Ult(b, a)
Uge(a, b) == ~Ult(a, b)
Sgt(a, b) == Slt(b, a)
Sge(a, b) == ~Slt(a, b)

RECURSIVE Eval(_, _)
Eval(t, st) ==
    LET op == t.op
        A(i) == Eval(t.args[i], st)
    IN
    CASE op = "BV" -> Mk(t.w, t.v)
      [] op = "IL_TRUE" -> B(TRUE)
      [] op = "IL_FALSE" -> B(FALSE)
      [] op = "VARL" -> IF t.name \in DOMAIN st.loc THEN st.loc[t.name] ELSE U("undef:" \o t.name)
      [] op = "VARLP" -> IF t.name \in DOMAIN st.lets THEN st.lets[t.name] ELSE U("unbound:" \o t.name)
      [] op = "LET" -> Eval(t.args[2], [st EXCEPT !.lets = (t.name :> A(1)) @@ st.lets])
      [] op = "IMM" -> IF t.letter \in DOMAIN st.imm THEN Cast(t.w, FALSE, st.imm[t.letter]) ELSE U("noimm")
      [] op = "PC" -> st.pc
      [] op = "READ_REG" -> ReadReg(st, KeyOf(t.reg), t.new, IsXLetter(t.reg), t.bnew)
      [] op = "ADD" -> BinBV(Add, A(1), A(2))
      [] op = "SUB" -> BinBV(Sub, A(1), A(2))
      [] op = "MUL" -> BinBV(Mul, A(1), A(2))
      [] op = "DIV" -> BinBV(UDiv, A(1), A(2))
      [] op = "MOD" -> BinBV(UMod, A(1), A(2))
      [] op = "LOGAND" -> BinBV(AndBV, A(1), A(2))
      [] op = "LOGOR" -> BinBV(OrBV, A(1), A(2))
      [] op = "LOGXOR" -> BinBV(XorBV, A(1), A(2))
      [] op = "LOGNOT" -> UnBV(NotBV, A(1))
      [] op = "NEG" -> UnBV(Neg, A(1))
      [] op = "SHIFTL0" -> ShiftBV(Shl, A(1), A(2))
      [] op = "SHIFTR0" -> ShiftBV(Shr0, A(1), A(2))
      [] op = "SHIFTRA" -> ShiftBV(ShrA, A(1), A(2))
      [] op = "CAST" ->
            LET f == A(1) x == A(2)
            IN  IF IsBool(f) /\ IsBVv(x) THEN Cast(t.w, f.b, x) ELSE Poison2(x, f)
      [] op = "UNSIGNED" -> LET x == A(1) IN IF IsBVv(x) THEN Cast(t.w, FALSE, x) ELSE Poison2(x, x)
      [] op = "SIGNED" -> LET x == A(1) IN IF IsBVv(x) THEN Cast(t.w, Msb(x), x) ELSE Poison2(x, x)
      [] op = "MSB" -> LET x == A(1) IN IF IsBVv(x) THEN B(Msb(x)) ELSE Poison2(x, x)
      [] op = "NON_ZERO" -> LET x == A(1) IN IF IsBVv(x) THEN B(NonZero(x)) ELSE Poison2(x, x)
      [] op = "IS_ZERO" -> LET x == A(1) IN IF IsBVv(x) THEN B(IsZero(x)) ELSE Poison2(x, x)
      [] op = "INC" -> LET x == A(1) IN IF IsBVv(x) /\ x.w = t.w THEN Add(x, One(t.w)) ELSE Poison2(x, x)
      [] op = "DEC" -> LET x == A(1) IN IF IsBVv(x) /\ x.w = t.w THEN Sub(x, One(t.w)) ELSE Poison2(x, x)
      [] op = "EQ" -> CmpBV(Eq, A(1), A(2))
      [] op = "ULT" -> CmpBV(Ult, A(1), A(2))
      [] op = "ULE" -> CmpBV(Ule, A(1), A(2))
      [] op = "UGT" -> CmpBV(Ugt, A(1), A(2))
      [] op = "UGE" -> CmpBV(Uge, A(1), A(2))
      [] op = "SLT" -> CmpBV(Slt, A(1), A(2))
      [] op = "SLE" -> CmpBV(Sle, A(1), A(2))
      [] op = "SGT" -> CmpBV(Sgt, A(1), A(2))
      [] op = "SGE" -> CmpBV(Sge, A(1), A(2))
      [] op = "AND" -> BinB(LAnd, A(1), A(2))
      [] op = "OR" -> BinB(LOr, A(1), A(2))
      [] op = "XOR" -> BinB(LXor, A(1), A(2))
      [] op = "INV" -> LET x == A(1) IN IF IsBool(x) THEN B(~x.b) ELSE Poison2(x, x)
      [] op = "ITE" ->
            LET c == A(1)
            IN  IF IsBool(c) THEN (IF c.b THEN A(2) ELSE A(3)) ELSE Poison2(c, c)
      [] op = "LOADW" -> LET a == A(1) IN IF IsBVv(a) THEN LoadBytes(st, a, t.w \div 8) ELSE Poison2(a, a)
      [] op \in MacroOps -> MacroApply(op, [i \in 1..Len(t.args) |-> A(i)])
      [] op = "UF" -> UFApply(t.name, [i \in 1..Len(t.args) |-> A(i)], st)
      [] op = "EXT" -> [x |-> t]
      [] op = "PARAM" -> U("param:" \o t.name)
      [] OTHER -> U("op:" \o op)

----------------------------------------------------------------------------
\* substitution of argument terms for the borrowed parameters of a sub-routine body
RECURSIVE Subst(_, _)
Subst(t, m) ==
    IF t.op = "PARAM" /\ t.name \in DOMAIN m THEN m[t.name]
    ELSE IF Len(t.args) = 0 THEN t
    ELSE [t EXCEPT !.args = [i \in 1..Len(t.args) |-> Subst(t.args[i], m)]]

RECURSIVE Exec(_, _, _)
RECURSIVE ExecSeq(_, _, _, _)
RECURSIVE Loop(_, _, _, _)

ExecSeq(es, i, st, subs) ==
    IF i > Len(es) \/ st.stuck # "" THEN st ELSE ExecSeq(es, i + 1, Exec(es[i], st, subs), subs)

Loop(c, body, st, subs) ==
    IF st.stuck # "" THEN st
    ELSE LET v == Eval(c, st)
         IN  IF ~IsBool(v) THEN [st EXCEPT !.stuck = "loopcond"]
             ELSE IF ~v.b THEN st
             ELSE IF st.fuel = 0 THEN [st EXCEPT !.stuck = "fuel"]
             ELSE Loop(c, body, Exec(body, [st EXCEPT !.fuel = st.fuel - 1], subs), subs)

Exec(e, st, subs) ==
    LET op == e.op IN
    IF st.stuck # "" THEN st
    ELSE
    CASE op = "SEQN" -> ExecSeq(e.args, 1, st, subs)
      [] op = "SEQ2" -> ExecSeq(e.args, 1, st, subs)
      [] op = "NOP" -> st
      [] op = "EMPTY" -> st
      [] op = "SETL" -> [st EXCEPT !.loc = (e.name :> Eval(e.args[1], st)) @@ st.loc]
      [] op = "WRITE_REG" ->
            LET k == KeyOf(e.reg) v == Eval(e.args[1], st)
            IN  IF ~HasReg(st, k) THEN [st EXCEPT !.stuck = "noreg:" \o k] ELSE WriteReg(st, k, v)
      [] op = "STOREW" ->
            LET a == Eval(e.args[1], st) v == Eval(e.args[2], st)
            IN  IF IsBVv(a) /\ IsBVv(v) THEN StoreBytes(st, a, v) ELSE [st EXCEPT !.stuck = "store"]
      [] op = "BRANCH" ->
            LET c == Eval(e.args[1], st)
            IN  IF ~IsBool(c) THEN [st EXCEPT !.stuck = "branchcond"]
                ELSE IF c.b THEN Exec(e.args[2], st, subs) ELSE Exec(e.args[3], st, subs)
      [] op = "REPEAT" -> Loop(e.args[1], e.args[2], st, subs)
      [] op = "SLOT_CANCEL" -> [st EXCEPT !.cancel = TRUE]
      [] op = "GET_NPC" -> [st EXCEPT !.loc = ("ret_val" :> Cast(64, FALSE, st.uf.npc)) @@ st.loc]
      [] op = "CALL" ->
            IF e.name \notin DOMAIN subs THEN [st EXCEPT !.stuck = "nosub:" \o e.name]
            ELSE LET sr == subs[e.name]
                     m == [i \in 1..Len(sr.params) |-> e.args[i]]
                     pm == [n \in {sr.params[i] : i \in 1..Len(sr.params)} |->
                               m[CHOOSE i \in 1..Len(sr.params) : sr.params[i] = n]]
                 IN  IF Len(sr.params) # Len(e.args) THEN [st EXCEPT !.stuck = "arity:" \o e.name]
                     ELSE Exec(Subst(sr.body, pm), st, subs)
      [] OTHER -> [st EXCEPT !.stuck = "effect:" \o op]

\* A5: the jump is the pair of IL locals jump_flag / jump_target
JumpOf(st) ==
    [ flag   |-> IF "jump_flag" \in DOMAIN st.loc THEN st.loc["jump_flag"] ELSE B(FALSE),
      target |-> IF "jump_target" \in DOMAIN st.loc THEN st.loc["jump_target"] ELSE U("none") ]

Run(e, st, subs) == LET s == Exec(e, st, subs) IN [s EXCEPT !.jump = JumpOf(s)]
=============================================================================
