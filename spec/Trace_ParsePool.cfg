SPECIFICATION Spec
INVARIANT OneTaskPerWorker
INVARIANT InOrderT
POSTCONDITION Post
CHECK_DEADLOCK FALSE
