------------------------------- MODULE Macros -------------------------------
(***************************************************************************)
(* QEMU bitops.h semantics of extract32/64, sextract64, deposit32/64 and   *)
(* bswap16/32/64 (assumption A7): the C functions and the equally named    *)
(* IL macros EXTRACT32 ... BSWAP64 denote the same functions.  Arguments   *)
(* outside QEMU's asserted ranges give poison (the C side marks the input  *)
(* UNSPEC).  Value args are bit vectors; start/length are read as counts.  *)
(***************************************************************************)
EXTENDS Arch

MacroOps == {"EXTRACT32", "EXTRACT64", "SEXTRACT64", "DEPOSIT32", "DEPOSIT64",
             "BSWAP16", "BSWAP32", "BSWAP64"}

\* start/length are C ints: negative values are out of range
CountS(b) == IF Msb(b) THEN BIGCOUNT ELSE Count(b)

Extract(w, v, start, len) ==
    LET s == CountS(start) n == CountS(len)
    IN  IF ~(IsBVv(v) /\ v.w = w /\ IsBVv(start) /\ IsBVv(len)) THEN U("sort")
        ELSE IF n = 0 \/ s + n > w THEN U("range")
        ELSE AndBV(ShrN(v, s, FALSE), ShrN(Ones(w), w - n, FALSE))

SExtract(w, v, start, len) ==
    LET s == CountS(start) n == CountS(len)
    IN  IF ~(IsBVv(v) /\ v.w = w /\ IsBVv(start) /\ IsBVv(len)) THEN U("sort")
        ELSE IF n = 0 \/ s + n > w THEN U("range")
        ELSE LET x == ShlN(v, w - n - s) IN ShrN(x, w - n, Msb(x))

Deposit(w, v, start, len, fv) ==
    LET s == CountS(start) n == CountS(len)
    IN  IF ~(IsBVv(v) /\ v.w = w /\ IsBVv(fv) /\ fv.w = w /\ IsBVv(start) /\ IsBVv(len)) THEN U("sort")
        ELSE IF n = 0 \/ s + n > w THEN U("range")
        ELSE LET mask == ShlN(ShrN(Ones(w), w - n, FALSE), s)
             IN  OrBV(AndBV(v, NotBV(mask)), AndBV(ShlN(fv, s), mask))

BSwap(w, v) ==
    IF ~(IsBVv(v) /\ v.w = w) THEN U("sort")
    ELSE Mk(w, [i \in 1..(w \div 8) |-> v.l[(w \div 8) + 1 - i]])

MacroApply(op, a) ==
    CASE op = "EXTRACT32" -> IF Len(a) = 3 THEN Extract(32, a[1], a[2], a[3]) ELSE U("arity")
      [] op = "EXTRACT64" -> IF Len(a) = 3 THEN Extract(64, a[1], a[2], a[3]) ELSE U("arity")
      [] op = "SEXTRACT64" -> IF Len(a) = 3 THEN SExtract(64, a[1], a[2], a[3]) ELSE U("arity")
      [] op = "DEPOSIT32" -> IF Len(a) = 4 THEN Deposit(32, a[1], a[2], a[3], a[4]) ELSE U("arity")
      [] op = "DEPOSIT64" -> IF Len(a) = 4 THEN Deposit(64, a[1], a[2], a[3], a[4]) ELSE U("arity")
      [] op = "BSWAP16" -> IF Len(a) = 1 THEN BSwap(16, a[1]) ELSE U("arity")
      [] op = "BSWAP32" -> IF Len(a) = 1 THEN BSwap(32, a[1]) ELSE U("arity")
      [] op = "BSWAP64" -> IF Len(a) = 1 THEN BSwap(64, a[1]) ELSE U("arity")

\* Deterministic "uninterpreted" plugin functions (A7): their results are inputs of the state.
UFApply(name, a, st) ==
    CASE name = "HEX_REGFIELD" ->
            IF Len(a) = 2 /\ "x" \in DOMAIN a[1] /\ a[1].x.kind = "const"
            THEN (IF a[1].x.name = "HEX_RF_WIDTH" THEN st.uf.rfwidth
                  ELSE IF a[1].x.name = "HEX_RF_OFFSET" THEN st.uf.rfoffset ELSE U("regfield"))
            ELSE U("regfield")
      [] name = "HEX_GET_CORRESPONDING_CS" -> st.uf.cs
      [] name = "HEX_GET_NPC" -> st.uf.npc
      [] OTHER -> [f |-> name, a |-> a]
=============================================================================
