------------------------------ MODULE Gen_C05 ------------------------------
(***************************************************************************)
(* Input space of C05 (statements take effect in source order under C's    *)
(* conditions): statement skeletons over atoms that leave distinguishable  *)
(* traces (non-commuting updates x = x*3+k with distinct k, all compound   *)
(* assignment operators on 32/64-bit targets, register / local / memory    *)
(* writes), combined by sequence, if, if/else chains, for loops with a     *)
(* data-dependent trip count n = RtV & 7 (0..7) or n+1 (1..8), nested      *)
(* loops, loop variable modified in the body, blocks and empty statements. *)
(* Every program starts with the same prologue and its locals, RdV, RxV    *)
(* and memory are observed at the end.                                     *)
(***************************************************************************)
EXTENDS CSyntax, Json, IOUtils, SequencesExt

Seed == atoi(IOEnv.VERIF_SEED)
Tier == IOEnv.VERIF_TIER

A == Var("a")   Bv == Var("b")   C == Var("c")   N == Var("n")   I == Var("i")   J == Var("j")   EA == Var("EA")
K(n) == NumN(n)
Upd(v, k) == Set(v, Bin("+", Bin("*", v, K(3)), K(k)))          \* v = v*3 + k

Prologue == << Decl(S32, "a", Rs), Decl(S32, "b", Rt), Decl(S64, "c", CastE(S64, Rs)),
               Decl(U32, "n", Bin("&", Rt, K(7))), Set(EA, Bin("&", Rs, HexN(65532, ""))) >>
Epilogue == << Set(Rd, A) >>

AssignOps == <<"+=", "-=", "*=", "&=", "|=", "^=", "<<=", ">>=", "/=", "%=">>
RhsFor(o) == IF o \in {"<<=", ">>="} THEN Bin("&", Bv, K(15))
             ELSE IF o \in {"/=", "%="} THEN Bin("|", Bin("&", Bv, K(127)), K(1))
             ELSE Bv

Atoms ==
    << Upd(A, 1), Upd(Bv, 2), Upd(C, 5),
       Set(Rx, Bin("+", Rx, A)),
       Set(Rd, Bv),
       Store(FALSE, 32, EA, A),
       Set(A, Load(FALSE, 32, EA)),
       Store(FALSE, 8, Bin("+", EA, K(1)), Bv),
       Set(Bv, Load(TRUE, 16, Bin("+", EA, K(2)))),
       Decl(S32, "t", None),
       Empty,
       Block(<< Upd(A, 7) >>),
       Decl(U16, "u", A),
       Set(C, Bin("-", C, CastE(S64, Bv))) >>
    \o [k \in 1..Len(AssignOps) |-> ExprS(Assign(A, AssignOps[k], RhsFor(AssignOps[k])))]
    \o [k \in 1..Len(AssignOps) |-> ExprS(Assign(C, AssignOps[k], RhsFor(AssignOps[k])))]
NAt == Len(Atoms)

Conds == << Bin("&", Bv, K(1)), Bin("<", A, Bv), Bin("==", N, K(3)), Un("!", Bin("&", A, K(2))), Bin(">", C, K(0)) >>
NCo == Len(Conds)

Loop(bound, v, body) == For(Set(v, K(0)), Bin("<", v, bound), Postfix("++", v), body)

Prog(id, stmts, tags) == [id |-> id, body |-> Prologue \o stmts \o Epilogue, tags |-> tags, fam |-> IF Tier = "thorough" THEN "low8" ELSE "low5", gk |-> <<"op:t">>]

Single == [k \in 1..NAt |-> Prog("s1-" \o ToString(k), <<Atoms[k]>>, <<"atom">>)]

\* pairs in four contexts: sequence, if, if/else, loop
Ctx(kind, x, y, c) ==
    CASE kind = 0 -> <<x, y>>
      [] kind = 1 -> << If(c, <<x>>), y >>
      [] kind = 2 -> << IfElse(c, <<x>>, <<y>>), Upd(A, 9) >>
      [] kind = 3 -> << Loop(N, I, <<x, y>>) >>
      [] kind = 4 -> << x, Loop(Bin("+", N, K(1)), I, <<y>>) >>
      [] kind = 5 -> << IfElse(c, <<x>>, << IfElse(Conds[1], <<y>>, << Upd(Bv, 4) >>) >>) >>

PairCount == IF Tier = "thorough" THEN 1200 ELSE 300
Pairs ==
    [k \in 1..PairCount |->
        LET x == Atoms[(H3(Seed, k, 1) % NAt) + 1]
            y == Atoms[(H3(Seed, k, 2) % NAt) + 1]
            c == Conds[(H3(Seed, k, 3) % NCo) + 1]
            kind == k % 6
        IN  Prog("p2-" \o ToString(k), Ctx(kind, x, y, c), <<"pair", ToString(kind)>>)]

\* deeper seeded skeletons: nesting <= 4
RECURSIVE RandS(_, _)
RandS(d, salt) ==
    LET h == H3(Seed, salt, d)
        atom == Atoms[(h % NAt) + 1]
        c == Conds[(H3(Seed, salt, 30 + d) % NCo) + 1]
        kind == H3(Seed, salt, 40 + d) % 8
    IN  IF d = 0 \/ kind <= 1 THEN <<atom>>
        ELSE IF kind = 2 THEN RandS(d - 1, 2 * salt) \o RandS(d - 1, 2 * salt + 1)
        ELSE IF kind = 3 THEN << If(c, RandS(d - 1, 2 * salt)) >>
        ELSE IF kind = 4 THEN << IfElse(c, RandS(d - 1, 2 * salt), RandS(d - 1, 2 * salt + 1)) >>
        ELSE IF kind = 5 THEN << Loop(N, IF d % 2 = 0 THEN I ELSE J, RandS(d - 1, 2 * salt)) >>
        ELSE IF kind = 6 THEN << Block(RandS(d - 1, 2 * salt)) >>
        ELSE << Loop(K(3), IF d % 2 = 0 THEN I ELSE J, RandS(d - 1, 2 * salt) \o << Set(A, Bin("+", A, CastE(S32, IF d % 2 = 0 THEN I ELSE J))) >>) >>

DeepCount == IF Tier = "thorough" THEN 800 ELSE 100
Deep == [k \in 1..DeepCount |-> Prog("d-" \o ToString(k), RandS(2 + (k % 3), 5000 + k), <<"deep">>)]

\* hand-picked structural cases: nested loops, loop variable modified in the body, zero-trip loops
Special ==
    << Prog("x-nested", << Loop(N, I, << Loop(K(2), J, << Upd(A, 1) >>), Upd(Bv, 2) >>) >>, <<"nested">>),
       Prog("x-modvar", << Loop(Bin("+", N, K(2)), I, << Upd(A, 1), Set(I, Bin("+", I, K(1))) >>) >>, <<"modvar">>),
       Prog("x-zerotrip", << Loop(K(0), I, << Upd(A, 1) >>), Upd(Bv, 2) >>, <<"zerotrip">>),
       Prog("x-elseif", << IfElse(Conds[3], << Upd(A, 1) >>, << IfElse(Conds[1], << Upd(A, 2) >>, << Upd(A, 3) >>) >>) >>, <<"elseif">>),
       Prog("x-overlap", << Store(FALSE, 32, EA, A), Store(FALSE, 16, Bin("+", EA, K(1)), Bv), Set(A, Load(FALSE, 32, EA)) >>, <<"overlap">>),
       Prog("x-emptyfirst", << Loop(N, I, << Empty, Upd(A, 1) >>) >>, <<"emptyinloop">>),
       Prog("x-emptymid", << Loop(Bin("+", N, K(1)), I, << Upd(A, 1), Empty, Upd(Bv, 2) >>) >>, <<"emptyinloop">>),
       Prog("x-emptyif", << Loop(N, I, << If(Conds[1], << Upd(A, 1), Empty >>), Upd(Bv, 2) >>) >>, <<"emptyinloop">>),
       Prog("x-emptynested", << Loop(N, I, << Loop(K(2), J, << Empty, Upd(A, 1) >>), Upd(Bv, 2) >>) >>, <<"emptyinloop">>),
       Prog("x-blockinloop", << Loop(N, I, << Block(<< Upd(A, 1) >>), Decl(S32, "t", None), Upd(Bv, 2) >>) >>, <<"blockinloop">>),
       Prog("x-ifinloopelse", << IfElse(Conds[1], << Upd(A, 1) >>, << Loop(N, I, << Upd(A, 2) >>), Upd(Bv, 3) >>) >>, <<"loopinelse">>),
       Prog("x-stepassign", << For(Set(I, K(0)), Bin("<", I, N), Assign(I, "=", Bin("+", I, K(1))), << Upd(A, 1) >>), Upd(Bv, 2) >>, <<"stepassign">>),
       Prog("x-stepcompound", << For(Set(I, K(0)), Bin("<", I, Bin("+", N, K(3))), Assign(I, "+=", K(2)), << Upd(A, 1), Upd(Bv, 2) >>) >>, <<"stepassign">>),
       Prog("x-stepdown", << For(Set(I, CastE(S32, N)), Bin(">", I, K(0)), Assign(I, "-=", K(1)), << Upd(A, 1) >>) >>, <<"stepassign">>),
       Prog("x-loopstore", << Loop(N, I, << Store(FALSE, 8, Bin("+", EA, I), CastE(U8, Bin("+", A, CastE(S32, I)))) >>), Set(Bv, Load(TRUE, 32, EA)) >>, <<"loopstore">>) >>

\* conditions that are VALUES (not comparisons): the branch / loop must test the value C computes, after every narrowing
\* and widening conversion, in its full width.  B4 = b << 4 is 0 in its low byte and non-zero above for b = 16 (mod 32).
B4 == Bin("<<", Bv, K(4))
ValueConds ==
    << CastE(S32, CastE(S8, B4)), CastE(S64, CastE(S16, Bin("<<", Bv, K(12)))), CastE(U32, CastE(U8, B4)), CastE(S8, B4), CastE(U16, Bin("<<", Bv, K(12))),
       CastE(S64, Bv), Bin("<<", C, K(33)), Bin("-", Bv, K(16)), Un("~", Bin("|", Bv, Un("~", K(31)))), Bin("&", CastE(S64, B4), HexN(256, "LL")),
       CastE(S32, CastE(S16, CastE(S8, B4))), Bin("*", CastE(S64, Bv), HexN(268435456, "LL")) >>
CondProgs ==
    Flatten([k \in 1..Len(ValueConds) |->
        LET c == ValueConds[k] nm == ToString(k) IN
        << Prog("vc-if-" \o nm, << Upd(A, 1), If(c, << Upd(A, 2) >>), Upd(A, 3) >>, <<"valuecond", "if">>),
           Prog("vc-ifelse-" \o nm, << IfElse(c, << Upd(A, 1) >>, << Upd(A, 2) >>), Upd(A, 3) >>, <<"valuecond", "ifelse">>),
           Prog("vc-ifelse2-" \o nm, << Upd(A, 1), IfElse(Un("!", c), << Upd(A, 4) >>, << Upd(A, 5) >>) >>, <<"valuecond", "ifelse-not">>) >>])
    \o \* for (m = (b & 3) + 256; (T2)(T1) m; m--) : the loop must stop when the NARROWED value is 0
       [k \in 1..3 |->
          LET t1 == (<<U8, S8, U16>>)[k] t2 == (<<U32, S32, S64>>)[k]
              m0 == IF k = 3 THEN Bin("+", Bin("&", Bv, K(3)), HexN(65536, "")) ELSE Bin("+", Bin("&", Bv, K(3)), K(256))
          IN  Prog("vc-for-" \o ToString(k), << Decl(U32, "m", m0),
                                                For(None, CastE(t2, CastE(t1, Var("m"))), Assign(Var("m"), "-=", K(1)), << Upd(A, 1) >>), Upd(A, 3) >>,
                   <<"valuecond", "for">>)]

Programs == Single \o Pairs \o Deep \o Special \o CondProgs

VARIABLE x
Init == x = JsonSerialize(IOEnv.GEN_OUT, Programs)
Next == FALSE /\ x' = x
=============================================================================
