------------------------------ MODULE Gen_C03 ------------------------------
(***************************************************************************)
(* Input space of C03 (casts and implicit conversions preserve the C       *)
(* value): all 8 x 8 source / target integer type pairs (plus boolean      *)
(* sources) in every conversion context -- explicit cast, initialisation,  *)
(* assignment to a local, assignment to a register (32-bit, pair,          *)
(* predicate), memory store of every width, call argument and return value *)
(* of generated sub-routines -- and chains of up to three conversions.     *)
(* The converted value is observed through int64_t / uint64_t locals (its  *)
(* sign or zero extension shows width and signedness), registers, memory.  *)
(***************************************************************************)
EXTENDS CSyntax, Json, IOUtils, SequencesExt

Seed == atoi(IOEnv.VERIF_SEED)
Tier == IOEnv.VERIF_TIER
A == Var("a")  Bv == Var("b")  X == Var("x")
Obs(e) == << Decl(S64, "r", e), Decl(U64, "q", e) >>
P(id, body, tags, fam) == [id |-> id, body |-> body, tags |-> tags, fam |-> fam, gk |-> <<"op:s", "op:t">>]
FamOf(s) == IF s.w = 8 THEN "low8" ELSE "std"
EAinit == Set(Var("EA"), Bin("&", Rtt, HexN(65528, "")))

\* generated sub-routines: cv_<T>(T p) returns int64_t (argument conversion), rt_<T>(int64_t p) returns T
Subs ==
    [i \in 1..8 |-> [name |-> "cvarg_" \o TName(Types8[i]), void |-> FALSE, ret |-> S64,
                     params |-> << [n |-> "p", t |-> Types8[i]] >>, body |-> << Return(Var("p")) >>]]
    \o [i \in 1..8 |-> [name |-> "cvret_" \o TName(Types8[i]), void |-> FALSE, ret |-> Types8[i],
                     params |-> << [n |-> "p", t |-> S64] >>, body |-> << Return(Var("p")) >>]]

Ctx(kind, s, t) ==
    \* programs start with  S a = RssV;
    LET d == Decl(s, "a", Rss) IN
    CASE kind = "cast"   -> << d >> \o Obs(CastE(t, A))
      [] kind = "init"   -> << d, Decl(t, "x", A) >> \o Obs(X)
      [] kind = "assign" -> << d, Decl(t, "x", None), Set(X, A) >> \o Obs(X)
      [] kind = "reg32"  -> << d, Decl(t, "x", A), Set(Rd, X) >>
      [] kind = "reg64"  -> << d, Decl(t, "x", A), Set(Rdd, X) >>
      [] kind = "pred"   -> << d, Decl(t, "x", A), Set(Reg("P", "d", FALSE, FALSE), X) >>
      [] kind = "arg"    -> << d >> \o Obs(Call("cvarg_" \o TName(t), <<A>>))
      [] kind = "ret"    -> << d >> \o Obs(Call("cvret_" \o TName(t), <<A>>))
      [] kind = "store"  -> << d, EAinit, Store(t.s, t.w, Var("EA"), A) >>
      [] kind = "cmpd"   -> << d, Decl(t, "x", Rtt), ExprS(Assign(X, "+=", A)) >> \o Obs(X)   \* (T)(x + a)
      \* chained assignment  y = x = a : y gets the value of x AFTER conversion to x's type (y has the type of a)
      [] kind = "cmpd-shl" -> << d, Decl(t, "x", Rtt), ExprS(Assign(X, "<<=", Bin("&", A, NumN(7)))) >> \o Obs(X)
      [] kind = "cmpd-shr" -> << d, Decl(t, "x", Rtt), ExprS(Assign(X, ">>=", Bin("&", A, NumN(7)))) >> \o Obs(X)
      [] kind = "cmpd-mul" -> << d, Decl(t, "x", Rtt), ExprS(Assign(X, "*=", A)) >> \o Obs(X)
      [] kind = "chain"  -> << d, Decl(t, "x", None), Decl(s, "y", None), Set(Var("y"), Assign(X, "=", A)) >> \o Obs(Var("y")) \o << Set(Rdd, X) >>
      [] kind = "chainreg" -> << d, Decl(t, "x", None), Set(Rdd, Assign(X, "=", A)) >>

Kinds == <<"cast", "init", "assign", "reg32", "reg64", "pred", "arg", "ret", "store", "cmpd", "chain", "chainreg", "cmpd-shl", "cmpd-shr", "cmpd-mul">>
Pairs ==
    [i \in 1..(Len(Kinds) * 64) |->
        LET kind == Kinds[((i - 1) \div 64) + 1]
            s == Types8[(((i - 1) % 64) \div 8) + 1]
            t == Types8[((i - 1) % 8) + 1]
        IN  P("cv-" \o kind \o "-" \o TName(s) \o "-" \o TName(t), Ctx(kind, s, t), <<"conv", kind>>, FamOf(s))]

\* boolean sources: comparison / logical results converted to each target type
BoolSrc == << Bin("<", A, Bv), Bin("==", A, Bv), Un("!", A), Bin("&&", A, Bv), Bin(">=", A, Bv) >>
Bools ==
    [i \in 1..(Len(BoolSrc) * 8 * 3) |->
        LET be == BoolSrc[((i - 1) % Len(BoolSrc)) + 1]
            t == Types8[(((i - 1) \div Len(BoolSrc)) % 8) + 1]
            kind == (i - 1) \div (Len(BoolSrc) * 8)
            pre == << Decl(S32, "a", Rss), Decl(U8, "b", Rtt) >>
            body == CASE kind = 0 -> pre \o << Decl(t, "x", be) >> \o Obs(X)
                      [] kind = 1 -> pre \o Obs(CastE(t, be))
                      [] kind = 2 -> pre \o << Decl(t, "x", None), Set(X, be), Set(Rdd, X) >>
        IN  P("bl-" \o ToString(i), body, <<"boolsrc">>, "pairs")]

\* chains of three conversions
T8i(h) == Types8[(h % 8) + 1]
\* all 8 x 8 x 8 chains in both tiers (quick: boundary / pattern / random inputs; thorough: additionally every low byte)
ChainCount == 512
Chains ==
    [i \in 1..ChainCount |->
        LET t1 == Types8[((i - 1) % 8) + 1]
            t2 == Types8[(((i - 1) \div 8) % 8) + 1]
            t3 == Types8[(((i - 1) \div 64) % 8) + 1]
        IN  P("ch-" \o ToString(i), << Decl(S64, "a", Rss) >> \o Obs(CastE(t3, CastE(t2, CastE(t1, A)))), <<"chain">>, IF Tier = "thorough" THEN "low8" ELSE "std")]

Programs == Pairs \o Bools \o Chains
Out == [programs |-> Programs, subs |-> Subs]

VARIABLE x
Init == x = JsonSerialize(IOEnv.GEN_OUT, Out)
Next == FALSE /\ x' = x
=============================================================================
