------------------------------- MODULE Grammar -------------------------------
(***************************************************************************)
(* C17: the structure C prescribes for the dialect's expression tower and  *)
(* for if/else nesting, as a precedence / associativity table with         *)
(*   Unparse(ast)  minimally parenthesised token sequence                  *)
(*   Parse(tokens) precedence-climbing parser (else binds to nearest if)   *)
(* TLC checks inside the specification that Parse(Unparse(a)) = a for      *)
(* every generated tree, so a disagreement with the real parser is never   *)
(* an artefact of ambiguous test text.  GEN mode writes the trees with     *)
(* their token sequences; CHECK mode compares the projection of the real   *)
(* (Lark) parse tree with the generating tree.                             *)
(***************************************************************************)
EXTENDS Naturals, Sequences, FiniteSets, TLC, Json, IOUtils

\* binary operators by binding strength (1 binds tightest), all left associative
Level(o) ==
    CASE o \in {"*", "/", "%"} -> 1
      [] o \in {"+", "-"} -> 2
      [] o \in {"<<", ">>"} -> 3
      [] o \in {"<", ">", "<=", ">="} -> 4
      [] o \in {"==", "!="} -> 5
      [] o = "&" -> 6
      [] o = "^" -> 7
      [] o = "|" -> 8
      [] o = "&&" -> 9
      [] o = "||" -> 10
BinOps == <<"*", "/", "%", "+", "-", "<<", ">>", "<", ">", "<=", ">=", "==", "!=", "&", "^", "|", "&&", "||">>
UnOps == <<"-", "~", "!">>
CondLevel == 11
AssignLevel == 12
PrimaryLevel == 0

Var(n) == [k |-> "var", n |-> n]
Bin(o, a, b) == [k |-> "bin", o |-> o, a |-> a, b |-> b]
Un(o, a) == [k |-> "un", o |-> o, a |-> a]
Cond(c, a, b) == [k |-> "cond", c |-> c, a |-> a, b |-> b]
CastE(t, a) == [k |-> "cast", t |-> t, a |-> a]
Post(o, a) == [k |-> "postfix", o |-> o, a |-> a]
Asg(l, r) == [k |-> "assign", o |-> "=", l |-> l, r |-> r]
S8 == [s |-> TRUE, w |-> 8]

\* binding strength of the outermost constructor (0 = primary/postfix, 0.5 = unary/cast encoded as level 0 with flag)
LevelOf(e) ==
    CASE e.k = "bin" -> Level(e.o)
      [] e.k = "cond" -> CondLevel
      [] e.k = "assign" -> AssignLevel
      [] OTHER -> 0
IsUnaryish(e) == e.k \in {"un", "cast"}

Paren(ts) == <<"(">> \o ts \o <<")">>
RECURSIVE Unparse(_)
\* operand of a binary operator at level L on the left (may be same level) / right (must bind tighter)
Opnd(e, maxLevel) == IF LevelOf(e) > maxLevel THEN Paren(Unparse(e)) ELSE Unparse(e)
Unparse(e) ==
    CASE e.k = "var" -> <<e.n>>
      [] e.k = "bin" -> Opnd(e.a, Level(e.o)) \o <<e.o>> \o Opnd(e.b, Level(e.o) - 1)
      [] e.k = "un" -> <<e.o>> \o (IF LevelOf(e.a) > 0 THEN Paren(Unparse(e.a)) ELSE Unparse(e.a))
      [] e.k = "cast" -> <<"(int8_t)">> \o (IF LevelOf(e.a) > 0 THEN Paren(Unparse(e.a)) ELSE Unparse(e.a))
      [] e.k = "postfix" -> (IF e.a.k = "var" THEN Unparse(e.a) ELSE Paren(Unparse(e.a))) \o <<e.o>>
      [] e.k = "cond" -> Opnd(e.c, 10) \o <<"?">> \o Unparse(e.a) \o <<":">> \o Opnd(e.b, CondLevel)
      [] e.k = "assign" -> Unparse(e.l) \o <<"=">> \o Opnd(e.r, AssignLevel)

----------------------------------------------------------------------------
\* precedence-climbing parser; every function returns [e |-> tree, i |-> next position]
R(e, i) == [e |-> e, i |-> i]
Tok(ts, i) == IF i <= Len(ts) THEN ts[i] ELSE "<eof>"
RECURSIVE ParseAssign(_, _)
RECURSIVE ParseCond(_, _)
RECURSIVE ParseLevel(_, _, _)
RECURSIVE Climb(_, _, _, _)
RECURSIVE ParseCastUn(_, _)
RECURSIVE PostLoop(_, _, _)

OpsAt(l) == {BinOps[j] : j \in {x \in 1..Len(BinOps) : Level(BinOps[x]) = l}}

PostLoop(ts, e, i) == IF Tok(ts, i) \in {"++", "--"} THEN PostLoop(ts, Post(Tok(ts, i), e), i + 1) ELSE R(e, i)

ParseCastUn(ts, i) ==
    LET t == Tok(ts, i) IN
    IF t = "(int8_t)" THEN LET r == ParseCastUn(ts, i + 1) IN R(CastE(S8, r.e), r.i)
    ELSE IF t \in {"-", "~", "!"} THEN LET r == ParseCastUn(ts, i + 1) IN R(Un(t, r.e), r.i)
    ELSE IF t = "(" THEN LET r == ParseAssign(ts, i + 1) IN PostLoop(ts, r.e, r.i + 1)      \* skips ")"
    ELSE PostLoop(ts, Var(t), i + 1)

Climb(ts, left, i, l) ==
    IF Tok(ts, i) \in OpsAt(l)
    THEN LET r == ParseLevel(ts, i + 1, l - 1) IN Climb(ts, Bin(Tok(ts, i), left, r.e), r.i, l)
    ELSE R(left, i)

ParseLevel(ts, i, l) ==
    IF l = 0 THEN ParseCastUn(ts, i)
    ELSE LET a == ParseLevel(ts, i, l - 1) IN Climb(ts, a.e, a.i, l)

ParseCond(ts, i) ==
    LET c == ParseLevel(ts, i, 10) IN
    IF Tok(ts, c.i) = "?"
    THEN LET a == ParseAssign(ts, c.i + 1)
             b == ParseCond(ts, a.i + 1)        \* skips ":"
         IN  R(Cond(c.e, a.e, b.e), b.i)
    ELSE c

ParseAssign(ts, i) ==
    LET c == ParseCond(ts, i) IN
    IF Tok(ts, c.i) = "=" THEN LET r == ParseAssign(ts, c.i + 1) IN R(Asg(c.e, r.e), r.i) ELSE c

Parse(ts) == ParseAssign(ts, 1).e

----------------------------------------------------------------------------
\* if / else nesting.  Statements: [k |-> "set", n] | [k |-> "if", c, t, e (or "none")]
Set(n) == [k |-> "set", n |-> n]
If1(c, t) == [k |-> "if", c |-> c, t |-> t, e |-> [k |-> "none"]]
If2(c, t, e) == [k |-> "if", c |-> c, t |-> t, e |-> e]
RECURSIVE EndsWithOpenIf(_)
EndsWithOpenIf(s) == s.k = "if" /\ (IF s.e.k = "none" THEN TRUE ELSE EndsWithOpenIf(s.e))
RECURSIVE UnparseS(_)
UnparseS(s) ==
    IF s.k = "set" THEN <<"x", "=", s.n, ";">>
    ELSE <<"if", "(", s.c, ")">> \o
         (IF s.e.k # "none" /\ EndsWithOpenIf(s.t) THEN <<"{">> \o UnparseS(s.t) \o <<"}">> ELSE UnparseS(s.t)) \o
         (IF s.e.k = "none" THEN <<>> ELSE <<"else">> \o UnparseS(s.e))
RECURSIVE ParseS(_, _)
ParseS(ts, i) ==
    IF Tok(ts, i) = "if" THEN
        LET c == Tok(ts, i + 2)
            t == IF Tok(ts, i + 4) = "{" THEN LET r == ParseS(ts, i + 5) IN R(r.e, r.i + 1) ELSE ParseS(ts, i + 4)
        IN  IF Tok(ts, t.i) = "else" THEN LET e == ParseS(ts, t.i + 1) IN R(If2(c, t.e, e.e), e.i)   \* nearest if
            ELSE R(If1(c, t.e), t.i)
    ELSE R(Set(Tok(ts, i + 2)), i + 4)

----------------------------------------------------------------------------
\* generated trees
A == Var("a")  B == Var("b")  C == Var("c")  D == Var("d")  E == Var("e")
NB == Len(BinOps)
OpPairs ==
    [i \in 1..(NB * NB * 2) |->
        LET o1 == BinOps[((i - 1) % NB) + 1]
            o2 == BinOps[(((i - 1) \div NB) % NB) + 1]
            left == (i - 1) \div (NB * NB) = 0
        IN  IF left THEN Bin(o2, Bin(o1, A, B), C) ELSE Bin(o1, A, Bin(o2, B, C))]
UnBin ==
    [i \in 1..(3 * NB * 3) |->
        LET u == UnOps[((i - 1) % 3) + 1]
            o == BinOps[(((i - 1) \div 3) % NB) + 1]
            kind == (i - 1) \div (3 * NB)
        IN  CASE kind = 0 -> Bin(o, Un(u, A), B)
              [] kind = 1 -> Un(u, Bin(o, A, B))
              [] kind = 2 -> Bin(o, A, Un(u, B))]
CastForms ==
    << CastE(S8, Un("-", A)), Un("-", CastE(S8, A)), CastE(S8, Post("++", A)), Post("++", CastE(S8, A)), Un("!", Post("--", A)),
       CastE(S8, Bin("+", A, B)), Bin("+", CastE(S8, A), B), Bin("*", Un("~", CastE(S8, A)), Post("++", B)),
       CastE(S8, CastE(S8, Un("~", A))), Bin("&", CastE(S8, A), B), Bin("&&", CastE(S8, A), Un("!", B)),
       Bin("-", A, Un("-", B)), Bin("-", Un("-", A), Un("-", B)), Bin("&", A, Un("~", B)) >>
CondForms ==
    << Cond(A, B, C), Cond(A, B, Cond(C, D, E)), Cond(Cond(A, B, C), D, E), Cond(A, Cond(B, C, D), E),
       Cond(Bin("||", A, B), C, D), Cond(A, Bin("||", B, C), D), Cond(A, B, Bin("||", C, D)), Bin("||", A, Cond(B, C, D)),
       Bin("+", Cond(A, B, C), D), Cond(A, Asg(B, C), D), Asg(A, Cond(B, C, D)), Asg(A, Asg(B, C)), Asg(A, Asg(B, Asg(C, D))),
       Asg(A, Bin("||", B, C)), Cond(A, B, Asg(C, D)) >>
Exprs == OpPairs \o UnBin \o CastForms \o CondForms

RECURSIVE Stmts(_)
Stmts(d) ==
    IF d = 0 THEN {Set("1"), Set("2")}
    ELSE LET sub == Stmts(d - 1) IN
         sub \cup {If1("a", t) : t \in sub} \cup {If2("a", t, e) : t \in sub, e \in {Set("3")} \cup {x \in sub : x.k = "if"}}
RECURSIVE SetToSeqG(_)
SetToSeqG(S) == IF S = {} THEN <<>> ELSE LET x == CHOOSE y \in S : TRUE IN <<x>> \o SetToSeqG(S \ {x})
IfStmts == SetToSeqG({s \in Stmts(2) : s.k = "if"})

\* the bijection, checked by TLC on the whole generated set (GenInit fails otherwise)
BijectionE == \A i \in 1..Len(Exprs) : Parse(Unparse(Exprs[i])) = Exprs[i]
BijectionS == \A i \in 1..Len(IfStmts) : ParseS(UnparseS(IfStmts[i]), 1).e = IfStmts[i]

GenOut == [ exprs |-> [i \in 1..Len(Exprs) |-> [id |-> "e" \o ToString(i), ast |-> Exprs[i], toks |-> Unparse(Exprs[i])]],
            stmts |-> [i \in 1..Len(IfStmts) |-> [id |-> "s" \o ToString(i), ast |-> IfStmts[i], toks |-> UnparseS(IfStmts[i])]] ]

----------------------------------------------------------------------------
\* CHECK mode: events [id, exp, obs, ok]  (obs = projection of the real parser's tree)
Data == JsonDeserialize(IOEnv.TV_FILE)
Events == Data.events
Verdict(e) ==
    IF ~e.ok THEN "the parser rejected the text"
    ELSE IF e.obs # e.exp THEN "the parse tree does not have the structure C prescribes"
    ELSE "ok"

VARIABLES x, verdict, g
Init == x \in 1..Len(Events) /\ verdict = "todo" /\ g = TRUE
Next == /\ verdict = "todo"
        /\ LET v == Verdict(Events[x])
           IN  verdict' = v /\ (IF v = "ok" THEN TRUE ELSE PrintT("GRREPORT " \o ToJson([id |-> Events[x].id, v |-> v])))
        /\ UNCHANGED <<x, g>>
Spec == Init /\ [][Next]_<<x, verdict, g>>

GenInit == /\ BijectionE /\ BijectionS
           /\ g = JsonSerialize(IOEnv.GEN_OUT, GenOut) /\ x = 0 /\ verdict = "gen"
GenNext == FALSE /\ UNCHANGED <<x, verdict, g>>
=============================================================================
