------------------------------ MODULE Gen_C02 ------------------------------
(***************************************************************************)
(* Input space of C02: integer operators under promotion / common type.    *)
(*   depth 1: every binary operator x 8 x 8 operand types, every unary     *)
(*            operator x 8 types, ?: with 8 condition x 8 x 8 arm types    *)
(*   depth 2: operator pairs x type triples (pairwise sample in quick,     *)
(*            full over six types in thorough)                             *)
(*   random : seeded trees of depth 3..5                                   *)
(* Shape: operands are locals of the operand type initialised from 64-bit  *)
(* registers; the expression is observed through an int64_t, a uint64_t    *)
(* local and RddV (width and signedness of the C result type are visible). *)
(***************************************************************************)
EXTENDS CSyntax, Json, IOUtils, SequencesExt

Seed == atoi(IOEnv.VERIF_SEED)
Tier == IOEnv.VERIF_TIER

BinOps == <<"+", "-", "*", "&", "|", "^", "<<", ">>", "<", ">", "<=", ">=", "==", "!=", "&&">>
UnOps == <<"~", "-", "!">>

Observe(e) == << Decl(S64, "r", e), Decl(U64, "q", e) >>

Prog2(id, lt, rt, e, tags, fam) ==
    [ id |-> id, tags |-> tags, fam |-> fam,
      body |-> << Decl(lt, "a", Rss), Decl(rt, "b", Rtt) >> \o Observe(e) ]
Prog3(id, ct, lt, rt, e, tags, fam) ==
    [ id |-> id, tags |-> tags, fam |-> fam,
      body |-> << Decl(ct, "c", Ruu), Decl(lt, "a", Rss), Decl(rt, "b", Rtt) >> \o Observe(e) ]

Fam(lt, rt) == IF lt.w = 8 /\ rt.w = 8 THEN "grid" ELSE "pairs"

Depth1Bin ==
    [i \in 1..(Len(BinOps) * 64) |->
        LET o == BinOps[((i - 1) \div 64) + 1]
            lt == Types8[(((i - 1) % 64) \div 8) + 1]
            rt == Types8[((i - 1) % 8) + 1]
        IN  Prog2("b1-" \o ToString(i) \o "-" \o TName(lt) \o "-" \o TName(rt), lt, rt,
                  Bin(o, Var("a"), Var("b")), <<"bin", o>>, Fam(lt, rt))]

Depth1Un ==
    [i \in 1..(Len(UnOps) * 8) |->
        LET o == UnOps[((i - 1) \div 8) + 1]
            lt == Types8[((i - 1) % 8) + 1]
        IN  Prog2("u1-" \o ToString(i) \o "-" \o TName(lt), lt, lt, Un(o, Var("a")), <<"un", o>>, Fam(lt, lt))]

Depth1Cond ==
    [i \in 1..512 |->
        LET ct == Types8[((i - 1) \div 64) + 1]
            lt == Types8[(((i - 1) % 64) \div 8) + 1]
            rt == Types8[((i - 1) % 8) + 1]
        IN  Prog3("c1-" \o ToString(i), ct, lt, rt, Cond(Var("c"), Var("a"), Var("b")), <<"cond">>, "pairs")]

\* depth 2: (a o1 b) o2 c  and  a o1 (b o2 c), types from a 6-element list
Types6 == <<S8, U8, S32, U32, S64, U64>>
AllOps == BinOps \o UnOps
NOps == Len(BinOps)
D2Count == IF Tier = "thorough" THEN 4000 ELSE 300
Depth2 ==
    [i \in 1..D2Count |->
        LET h == H3(Seed, i, 7)
            o1 == BinOps[(h % NOps) + 1]
            o2 == BinOps[(H3(Seed, i, 8) % NOps) + 1]
            lt == Types6[(H3(Seed, i, 9) % 6) + 1]
            rt == Types6[(H3(Seed, i, 10) % 6) + 1]
            ct == Types6[(H3(Seed, i, 11) % 6) + 1]
            left == H3(Seed, i, 12) % 2 = 0
            e == IF left THEN Bin(o2, Bin(o1, Var("a"), Var("b")), Var("c"))
                 ELSE Bin(o1, Var("a"), Bin(o2, Var("b"), Var("c")))
        IN  Prog3("d2-" \o ToString(i), ct, lt, rt, e, <<"depth2", o1, o2>>, "std")]

\* seeded random trees
RECURSIVE RandE(_, _)
RandE(d, salt) ==
    LET h == H3(Seed, salt, d)
        leaf == (<<Var("a"), Var("b"), Var("c")>>)[(h % 3) + 1]
    IN  IF d = 0 \/ h % 7 = 0 THEN leaf
        ELSE LET kind == H3(Seed, salt, 50 + d) % 10 IN
             IF kind <= 6 THEN Bin(BinOps[(H3(Seed, salt, 60 + d) % NOps) + 1], RandE(d - 1, 2 * salt), RandE(d - 1, 2 * salt + 1))
             ELSE IF kind = 7 THEN Un(UnOps[(H3(Seed, salt, 70 + d) % 3) + 1], RandE(d - 1, 2 * salt))
             ELSE IF kind = 8 THEN CastE(Types8[(H3(Seed, salt, 80 + d) % 8) + 1], RandE(d - 1, 2 * salt))
             ELSE Cond(RandE(d - 1, 3 * salt), RandE(d - 1, 3 * salt + 1), RandE(d - 1, 3 * salt + 2))

RCount == IF Tier = "thorough" THEN 3000 ELSE 200
RandomTrees ==
    [i \in 1..RCount |->
        LET lt == Types8[(H3(Seed, i, 21) % 8) + 1]
            rt == Types8[(H3(Seed, i, 22) % 8) + 1]
            ct == Types8[(H3(Seed, i, 23) % 8) + 1]
        IN  Prog3("rt-" \o ToString(i), ct, lt, rt, RandE(3 + (i % 3), 1000 + i), <<"random">>, "std")]

\* the C type of a 64-bit result does not show through the int64_t / uint64_t observers (nothing is widened): for every
\* operator and every operand pair with a 64-bit operand the result is also used under >> 1 and < 0, whose meaning
\* depends on the signedness of the result type
Wide == {i \in 1..64 : Types8[((i - 1) \div 8) + 1].w = 64 \/ Types8[((i - 1) % 8) + 1].w = 64}
WideSeq == SetToSeq(Wide)
RevOps == <<"+", "-", "*", "&", "|", "^", "<<", ">>">>
Reveal64All ==
    [i \in 1..(Len(RevOps) * Len(WideSeq) * 2) |->
        LET o == RevOps[((i - 1) % Len(RevOps)) + 1]
            pi == WideSeq[(((i - 1) \div Len(RevOps)) % Len(WideSeq)) + 1]
            lt == Types8[((pi - 1) \div 8) + 1]
            rt == Types8[((pi - 1) % 8) + 1]
            wrap == (i - 1) \div (Len(RevOps) * Len(WideSeq))
            inner == Bin(o, Var("a"), IF o \in {"<<", ">>"} THEN Bin("&", Var("b"), NumN(7)) ELSE Var("b"))
            e == IF wrap = 0 THEN Bin(">>", inner, NumN(1)) ELSE Bin("<", inner, NumN(0))
        IN  Prog2("rv-" \o ToString(i), lt, rt, e, <<"reveal64", o>>, "pairs")]
Reveal64 == IF Tier = "thorough" THEN Reveal64All ELSE [i \in 1..(Len(Reveal64All) \div 2) |-> Reveal64All[2 * i - (i % 2)]]
\* the same for ?: (the result type is the common type of the arms)
RevealCond ==
    [i \in 1..(Len(WideSeq) * 2) |->
        LET pi == WideSeq[((i - 1) % Len(WideSeq)) + 1]
            lt == Types8[((pi - 1) \div 8) + 1]
            rt == Types8[((pi - 1) % 8) + 1]
            inner == Cond(Var("c"), Var("a"), Var("b"))
            e == IF i <= Len(WideSeq) THEN Bin(">>", inner, NumN(1)) ELSE Bin("<", inner, NumN(0))
        IN  Prog3("rvc-" \o ToString(i), U8, lt, rt, e, <<"reveal64", "?:">>, "pairs")]

\* a cast to a signed type in front of >> (the shift is arithmetic whatever the operand of the cast was), and to an
\* unsigned type (logical), over sources of the same, a smaller and a larger width
CastShift ==
    [i \in 1..(8 * 4 * 2) |->
        LET lt == Types8[((i - 1) % 8) + 1]
            tt == (<<S32, S64, U32, U64>>)[(((i - 1) \div 8) % 4) + 1]
            src == IF i <= 32 THEN Var("a") ELSE Bin("-", Var("a"), Var("b"))
        IN  Prog2("cs-" \o ToString(i), lt, lt, Bin(">>", CastE(tt, src), NumN(4)), <<"castshift">>, "pairs")]

Programs == CastShift \o Depth1Bin \o Depth1Un \o Depth1Cond \o Depth2 \o RandomTrees \o Reveal64 \o RevealCond

VARIABLE x
Init == x = JsonSerialize(IOEnv.GEN_OUT, Programs)
Next == FALSE /\ x' = x
=============================================================================
