-------------------------------- MODULE Arch --------------------------------
(***************************************************************************)
(* Architectural model shared by the C side (CSem) and the IL side (RzIL): *)
(* register banks old/new keyed by resource key, immediates by letter, pc, *)
(* little-endian byte memory (finite write map over a seeded default),     *)
(* IL locals, jump flag/target, slot cancel.  Assumptions A1..A7 of        *)
(* DESIGN.md section 5 are implemented here and nowhere else.              *)
(*                                                                         *)
(* Resource keys (strings):  "op:s"   operand slot with ISA letter s       *)
(*                           "ex:P:0" explicitly numbered register         *)
(*                           "al:USR" register alias                       *)
(* Values: bit vectors [w, l] (module BV), booleans [b |-> TRUE/FALSE],    *)
(* poison [u |-> reason], uninterpreted float terms [f |-> name, a |-> args]*)
(***************************************************************************)
EXTENDS BV, TLC, FiniteSets

\* Force(F, e): F applied to the *value* of e.  TLC passes operator arguments as thunks; in recursions
\* that thread an accumulator (a state) through many levels the thunks chain up.  Binding through a
\* singleton set evaluates e exactly once.
Force(F(_), e) == CHOOSE y \in {F(x) : x \in {e}} : TRUE

B(x) == [b |-> x]
U(r) == [u |-> r]
IsBVv(v) == "w" \in DOMAIN v
IsBool(v) == "b" \in DOMAIN v
IsPoison(v) == "u" \in DOMAIN v
IsF(v) == "f" \in DOMAIN v

----------------------------------------------------------------------------
\* small deterministic hash (all intermediate values < 2^31)
H2(a, b) == ((((a % 65537) * 31 + (b % 65537)) % 65537) * 75 + 74) % 65537
H3(a, b, c) == H2(H2(a, b), c)

RandBV(w, seed, salt) == Norm(w, [i \in 1..NL(w) |-> H3(seed, salt, i) % 256])

\* boundary values of width w, indexed 1..NBound
NBound == 12
Pat(w, byte) == Norm(w, [i \in 1..NL(w) |-> byte])
\* ordered by importance: a run may use only the first n of them
Bound(w, i) ==
    CASE i = 1 -> Zero(w)
      [] i = 2 -> One(w)
      [] i = 3 -> Ones(w)                                   \* -1 / UMAX
      [] i = 4 -> ShrN(Ones(w), 1, FALSE)                   \* SMAX
      [] i = 5 -> ShlN(One(w), w - 1)                       \* SMIN
      [] i = 6 -> FromNat(w, 128)
      [] i = 7 -> Pat(w, 170)                               \* 0xAA..
      [] i = 8 -> FromNat(w, 255)
      [] i = 9 -> FromNat(w, 2)
      [] i = 10 -> Pat(w, 85)                               \* 0x55..
      [] i = 11 -> Sub(Zero(w), FromNat(w, 2))              \* -2
      [] i = 12 -> FromNat(w, 127)

----------------------------------------------------------------------------
\* memory: addresses are 32-bit, stored as the 4-limb tuple of the address
AddrKey(a) == Cast(32, FALSE, a).l
DefaultByte(seed, k) == H3(seed, H2(k[1], k[2]), H2(k[3], k[4])) % 256
MemByte(st, k) == IF k \in DOMAIN st.mem THEN st.mem[k] ELSE DefaultByte(st.memseed, k)

\* load n bytes little-endian at address a (a bit vector)
LoadBytes(st, a, n) ==
    LET a32 == Cast(32, FALSE, a)
    IN  Mk(8 * n, [i \in 1..n |-> MemByte(st, Add(a32, FromNat(32, i - 1)).l)])

StoreBytes(st, a, v) ==
    LET a32 == Cast(32, FALSE, a)
        n == NL(v.w)
        upd == [k \in {Add(a32, FromNat(32, i - 1)).l : i \in 1..n} |->
                   LET i == CHOOSE j \in 1..n : Add(a32, FromNat(32, j - 1)).l = k IN v.l[i]]
    IN  [st EXCEPT !.mem = upd @@ st.mem, !.nstores = st.nstores + 1]

----------------------------------------------------------------------------
\* registers
HasReg(st, key) == key \in DOMAIN st.old
RegW(st, key) == st.old[key].w

\* A1: READ_REG(pkt, op, tmp)
\*   xread = the operand's ISA letter is one of x y z (read/write operand): the compiler relies on
\*   the plugin to return the tmp value once the register "was written".  Two admissible plugin
\*   models: "exec" (a write has executed) and "build" (a write was built earlier: flag bnew of the
\*   node, computed from the text order by the emitted-text reader).
ReadReg(st, key, tmp, xread, bnew) ==
    IF ~HasReg(st, key) THEN U("noreg")
    ELSE IF tmp THEN st.new[key]
    ELSE IF xread /\ ((st.model = "exec" /\ key \in st.wr) \/ (st.model = "build" /\ bnew)) THEN st.new[key]
    ELSE st.old[key]

WriteReg(st, key, v) ==
    [st EXCEPT !.new = (key :> v) @@ st.new, !.wr = st.wr \cup {key}, !.nregw = st.nregw + 1]

----------------------------------------------------------------------------
\* The part of a final state both sides must agree on.
Visible(st) ==
    [ regs   |-> [k \in st.wr |-> st.new[k]],
      mem    |-> st.mem,
      jump   |-> st.jump,
      cancel |-> st.cancel ]
=============================================================================
