SPECIFICATION TSpec
CONSTANTS Insts = {1, 2}
NB = 12
MaxHist = 1000
D1_PredsClassLevel = FALSE
D2_NoResetOnFailure = FALSE
INVARIANT HistoryIndependent
INVARIANT AttrsOwn
INVARIANT CleanBetweenCalls
CHECK_DEADLOCK FALSE
