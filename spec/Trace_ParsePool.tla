--------------------------- MODULE Trace_ParsePool ---------------------------
(***************************************************************************)
(* Trace validation for C18.  A recorded run of the real Parser.parse      *)
(* consists of one event sequence per worker process (ordered by a         *)
(* per-process sequence number, never by wall clock) and the parent's      *)
(* sequence of delivered results:                                          *)
(*     worker:  <<"S", t>>  parse_single started on task t                 *)
(*              <<"F", t, out>>  it returned outcome summary `out'         *)
(*     parent:  <<"Y", t, out>>  imap delivered task t's result            *)
(* plus, per task, the outcome `seq[t]' of sequential in-process parsing   *)
(* and the final dictionary `result' (name index -> outcome).              *)
(* TLC searches for an interleaving of the per-process sequences that is a *)
(* behaviour of ParsePool (Dispatch / Finish / Yield with the logged       *)
(* values); a trace is accepted iff some interleaving consumes every event *)
(* and ends in a state satisfying the invariants.  Several traces per run; *)
(* acceptance is collected in TLC registers (run with -workers 1).         *)
(***************************************************************************)
EXTENDS Naturals, Sequences, FiniteSets, TLC, TLCExt, Json, IOUtils

Traces == JsonDeserialize(IOEnv.TV_FILE).traces

VARIABLES tid, pos, ppos, next, worker, done, yielded, result, bad
vars == <<tid, pos, ppos, next, worker, done, yielded, result, bad>>

Tr == Traces[tid]
NT == Len(Tr.seq)                 \* number of tasks
Procs == 1..Len(Tr.procs)

Init == /\ tid \in 1..Len(Traces)
        /\ pos = [p \in 1..Len(Traces[tid].procs) |-> 1]
        /\ ppos = 1
        /\ next = 1
        /\ worker = [p \in 1..Len(Traces[tid].procs) |-> 0]
        /\ done = <<>>
        /\ yielded = 0
        /\ result = <<>>
        /\ bad = ""
        /\ TLCSet(tid, "no interleaving of the recorded events is a behaviour of ParsePool")

Flag(b, why) == IF b = "" THEN why ELSE b
HasEv(p) == pos[p] <= Len(Tr.procs[p])
Ev(p) == Tr.procs[p][pos[p]]

\* Partial-order reduction: Finish and Yield never disable another event and commute with every
\* event of another process, so they are taken eagerly (Finish first, lowest process first).  Every
\* accepted interleaving can be reordered into this canonical one, so acceptance is unchanged and
\* the search is linear in the trace length.
FinReady(p) == HasEv(p) /\ Ev(p)[1] = "F" /\ worker[p] = Ev(p)[2] /\ worker[p] # 0
AnyFin == \E p \in Procs : FinReady(p)
YieldReady == ppos <= Len(Tr.parent) /\ Tr.parent[ppos][2] = yielded + 1 /\ Tr.parent[ppos][2] \in DOMAIN done

\* ParsePool!Dispatch(p) with the logged task
TDispatch(p) ==
    /\ ~AnyFin /\ ~YieldReady
    /\ HasEv(p) /\ Ev(p)[1] = "S"
    /\ worker[p] = 0
    /\ Ev(p)[2] = next                        \* tasks leave the queue in submission order
    /\ next <= NT
    /\ worker' = [worker EXCEPT ![p] = next]
    /\ next' = next + 1
    /\ pos' = [pos EXCEPT ![p] = pos[p] + 1]
    /\ UNCHANGED <<tid, ppos, done, yielded, result, bad>>

\* ParsePool!Finish(p) with the logged outcome: it must be the sequential outcome (Isolated)
TFinish(p) ==
    /\ FinReady(p) /\ \A q \in Procs : FinReady(q) => p <= q
    /\ done' = (worker[p] :> Ev(p)[3]) @@ done
    /\ bad' = LET t == worker[p] out == Ev(p)[3] IN
              \* ParsePool!SeqOutcome: all trees, or (a failure in any part) the error's name and no trees
              IF Tr.failat[t] = 0 /\ (out[1] # "ok" \/ out[2] # Tr.parts[t])
              THEN Flag(bad, "task " \o ToString(t) \o " parses but the worker returned " \o ToString(out))
              ELSE IF Tr.failat[t] # 0 /\ (out[1] # "err" \/ out[2] # 0)
              THEN Flag(bad, "task " \o ToString(t) \o " fails in part " \o ToString(Tr.failat[t]) \o " but the worker returned " \o ToString(out) \o " (error name and no trees expected)")
              ELSE IF out # Tr.seq[t]
              THEN Flag(bad, "worker outcome of task " \o ToString(t) \o " differs from sequential parsing")
              ELSE bad
    /\ worker' = [worker EXCEPT ![p] = 0]
    /\ pos' = [pos EXCEPT ![p] = pos[p] + 1]
    /\ UNCHANGED <<tid, ppos, next, yielded, result>>

\* ParsePool!Yield with the logged delivery
TYield ==
    /\ ~AnyFin
    /\ ppos <= Len(Tr.parent)
    /\ LET e == Tr.parent[ppos] IN
       /\ e[2] = yielded + 1                   \* imap delivers in submission order
       /\ e[2] \in DOMAIN done
       /\ bad' = IF e[3] = done[e[2]] THEN bad
                 ELSE Flag(bad, "delivered outcome of task " \o ToString(e[2]) \o " differs from what the worker returned")
       /\ result' = (e[2] :> e[3]) @@ result
    /\ yielded' = yielded + 1
    /\ ppos' = ppos + 1
    /\ UNCHANGED <<tid, pos, next, worker, done>>

AllConsumed == ppos > Len(Tr.parent) /\ \A p \in Procs : pos[p] > Len(Tr.procs[p])

\* final comparison: one entry per name, equal to sequential parsing
FinalVerdict ==
    IF bad # "" THEN bad
    ELSE IF yielded # NT THEN "not every task was delivered"
    ELSE IF Len(Tr.result) # NT THEN "the returned dictionary has " \o ToString(Len(Tr.result)) \o " entries for " \o ToString(NT) \o " names"
    ELSE IF \E t \in 1..NT : Tr.result[t] # Tr.seq[t]
         THEN "entry " \o ToString(CHOOSE t \in 1..NT : Tr.result[t] # Tr.seq[t]) \o " of the returned dictionary differs from sequential parsing"
    ELSE IF \E t \in 1..NT : result[t] # Tr.seq[t] THEN "merged result differs"
    ELSE "ok"

TEnd == /\ AllConsumed
        /\ bad # "end"
        /\ LET v == FinalVerdict IN
           /\ IF v = "ok" THEN TLCSet(tid, "ok")
              ELSE IF TLCGet(tid) = "ok" THEN TRUE ELSE TLCSet(tid, v)
        /\ bad' = "end"
        /\ UNCHANGED <<tid, pos, ppos, next, worker, done, yielded, result>>

Next == (\E p \in Procs : TDispatch(p) \/ TFinish(p)) \/ TYield \/ TEnd
Spec == Init /\ [][Next]_vars

\* ParsePool's invariants on the replayed state
OneTaskPerWorker == \A a, b \in Procs : (a # b /\ worker[a] # 0) => worker[a] # worker[b]
InOrderT == DOMAIN result = 1..yielded

Post == \A t \in 1..Len(Traces) :
            \/ TLCGet(t) = "ok"
            \/ PrintT("PPREPORT " \o ToJson([tid |-> t, id |-> Traces[t].id, v |-> TLCGet(t)]))
=============================================================================
