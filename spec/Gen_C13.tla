------------------------------ MODULE Gen_C13 ------------------------------
(* Input space of C13: programs combining the attribute-relevant constructs  *)
(* -- if, ?: (not COND), .new operands of every kind, loads, stores, JUMP,   *)
(* writes of operand / explicit / explicit-.new predicates and of non-       *)
(* predicate registers and aliases whose names look like predicates, dead    *)
(* code, nested statement-expressions -- in all subsets of a feature list.   *)
EXTENDS CSyntax, Json, IOUtils, SequencesExt
K(n) == NumN(n)
A == Var("a")
Pu == Reg("P", "u", FALSE, FALSE)   Pd == Reg("P", "d", FALSE, FALSE)
Features ==
    << << If(Bin("&", Rs, K(1)), << Set(Rd, K(1)) >>) >>,                                   \* COND
       << Set(Rd, Cond(Bin("&", Rs, K(1)), K(2), K(3))) >>,                                  \* ?: is not COND
       << Set(Rd, Bin("+", Reg("R", "t", FALSE, TRUE), K(1))) >>,                            \* RtN  -> NEW
       << Set(Rd, CastE(S32, Reg("P", "v", FALSE, TRUE))) >>,                                \* PvN  -> NEW
       << Set(Rd, CastE(S32, XReg("P", 0, TRUE))) >>,                                        \* P0_NEW read -> NEW
       << Set(Rd, CastE(S32, Alias("LR", TRUE))) >>,                                         \* alias _NEW -> NEW
       << Set(Rd, CastE(S32, Load(FALSE, 16, Rs))) >>,                                       \* MEM_READ
       << Store(FALSE, 8, Rs, Rt) >>,                                                        \* MEM_WRITE
       << Jump(Rs), Empty >>,                                                                \* BRANCH
       << Set(Pd, Rs) >>,                                                                    \* WPRED (operand predicate)
       << Set(XReg("P", 0, FALSE), Rs) >>,                                                   \* WPRED + WRITE_P0
       << Set(XReg("P", 3, FALSE), Rs), Set(XReg("P", 1, FALSE), Rt) >>,                     \* WRITE_P3, WRITE_P1
       << Set(Alias("P3_0", FALSE), Rs) >>,                                                  \* alias P3_0 is not an explicitly numbered predicate
       << Set(Alias("PKTCOUNT", FALSE), Rss) >>,                                             \* nor is PKTCOUNT
       << Set(Rd, CastE(S32, Pu)) >>,                                                        \* reading a predicate is not WPRED
       << Set(Rd, Cond(K(1), K(5), CastE(S32, Load(FALSE, 8, Rs)))) >>,                      \* load in a folded-away arm (textual: MEM_READ)
       << Set(Rd, StmtExpr(<< If(Rt, << Set(XReg("P", 2, FALSE), K(1)) >>) >>, K(4))) >>      \* nested in a statement expression
    >>
NF == Len(Features)
P(id, body, tags) == [id |-> id, body |-> body, tags |-> tags, fam |-> "std", gk |-> <<>>]
Singles == [i \in 1..NF |-> P("at1-" \o ToString(i), Features[i], <<"attr", "single">>)]
Pairs == [i \in 1..(NF * NF) |->
            LET a == ((i - 1) \div NF) + 1  b == ((i - 1) % NF) + 1
            IN  P("at2-" \o ToString(a) \o "-" \o ToString(b), Features[a] \o Features[b], <<"attr", "pair">>)]
Programs == Singles \o SelectSeq(Pairs, LAMBDA p : TRUE)
VARIABLE x
Init == x = JsonSerialize(IOEnv.GEN_OUT, Programs)
Next == FALSE /\ x' = x
=============================================================================
