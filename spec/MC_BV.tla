------------------------------- MODULE MC_BV -------------------------------
(* Oracle sanity for BV.tla: all values at widths 1..MaxW with a small limb  *)
(* base (LB overridden in the cfg), compared with integer arithmetic.        *)
EXTENDS BV, TLC
CONSTANT MaxW
SmallLB == 2
VARIABLES w, x, y, res

RECURSIVE ToNatL(_, _)
ToNatL(l, i) == IF i > Len(l) THEN 0 ELSE l[i] * (BASE^(i - 1)) + ToNatL(l, i + 1)
ToNat(a) == ToNatL(a.l, 1)
M(n) == 2^n
ToInt(n, ww) == IF n >= M(ww - 1) THEN n - M(ww) ELSE n

Init == w \in 1..MaxW /\ x \in 0..(M(w) - 1) /\ y \in 0..(M(w) - 1) /\ res = "todo"
A == FromNat(w, x)
B == FromNat(w, y)
Ok ==
    /\ ToNat(A) = x /\ A.w = w /\ Len(A.l) = NL(w)
    /\ ToNat(Add(A, B)) = (x + y) % M(w)
    /\ ToNat(Sub(A, B)) = (x + M(w) - y) % M(w)
    /\ ToNat(Neg(A)) = (M(w) - x) % M(w)
    /\ ToNat(Mul(A, B)) = (x * y) % M(w)
    /\ ToNat(NotBV(A)) = M(w) - 1 - x
    /\ ToNat(AndBV(A, B)) = (x & y)
    /\ ToNat(OrBV(A, B)) = (x | y)
    /\ ToNat(XorBV(A, B)) = (x ^^ y)
    /\ Eq(A, B) = (x = y)
    /\ Ult(A, B) = (x < y)
    /\ Ule(A, B) = (x <= y)
    /\ Slt(A, B) = (ToInt(x, w) < ToInt(y, w))
    /\ Sle(A, B) = (ToInt(x, w) <= ToInt(y, w))
    /\ Msb(A) = (x >= M(w - 1))
    /\ IsZero(A) = (x = 0)
    /\ (Count(B) = y \/ (Count(B) = BIGCOUNT /\ y >= BASE * BASE /\ y >= w))
    /\ ToNat(Shl(A, B)) = IF y >= w THEN 0 ELSE (x * M(y)) % M(w)
    /\ ToNat(Shr0(A, B)) = IF y >= w THEN 0 ELSE x \div M(y)
    /\ ToNat(ShrA(A, B)) = LET fill == IF x >= M(w - 1) THEN M(w) - 1 ELSE 0
                               k == IF y >= w THEN w ELSE y
                           IN  (x \div M(k)) + (fill - (fill \div M(k)))
    /\ ToNat(UDiv(A, B)) = IF y = 0 THEN M(w) - 1 ELSE x \div y
    /\ ToNat(UMod(A, B)) = IF y = 0 THEN x ELSE x % y
    /\ \A w2 \in 1..(MaxW + 3) :
          /\ ToNat(Cast(w2, FALSE, A)) = x % M(w2)
          /\ ToNat(Cast(w2, TRUE, A)) = IF w2 <= w THEN x % M(w2) ELSE x + (M(w2) - M(w))
          /\ ToNat(SExt(w2, A)) = IF w2 <= w THEN x % M(w2)
                                  ELSE IF x >= M(w - 1) THEN x + (M(w2) - M(w)) ELSE x
Next == res = "todo" /\ res' = (IF Ok THEN "ok" ELSE "bad") /\ UNCHANGED <<w, x, y>>
Holds == res # "bad"

=============================================================================
