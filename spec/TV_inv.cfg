SPECIFICATION Spec
INVARIANT NoMismatch
CHECK_DEADLOCK FALSE
