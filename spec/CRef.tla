-------------------------------- MODULE CRef --------------------------------
(***************************************************************************)
(* Oracle sanity: prints what CSem.tla says a program does on each input   *)
(* state of the bounded family (inputs, final locals, written registers).  *)
(* bin/oracle-sanity compiles the same programs with the sandbox's C       *)
(* compiler, runs them on the same inputs and compares.  This validates    *)
(* the SPECIFICATION (the C semantics every translation-validation check   *)
(* uses as its oracle); it decides no property of the compiler.            *)
(***************************************************************************)
EXTENDS TV

\* (no set / function constructor around ref: TLC caches a lazily bound LET definition only outside such bodies;
\* the harness filters poisoned locals and unwritten registers itself)
Line(ci, kk) ==
    LET cs == Cases[ci]
        s0 == InputState(cs, kk, "exec", {})
        ref == RunSrc(cs, s0, kk, {})
    IN  [ id |-> cs.id, k |-> kk, unspec |-> ref.unspec, why |-> ref.why, div |-> ref.diverged,
          old |-> s0.old, imm |-> s0.imm,
          rt |-> [key \in Keys(cs) |-> RegType(cs.regs[RegIdx(cs, key)])],
          vars |-> ref.vars, wrs |-> ref.wr, new |-> ref.new ]

NextRef == /\ verdict = <<>>
           /\ verdict' = <<TRUE>>
           /\ PrintT("CREF " \o ToJson(Line(c, k)))
           /\ UNCHANGED <<c, k>>
SpecRef == Init /\ [][NextRef]_vars
=============================================================================
