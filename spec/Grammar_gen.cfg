INIT GenInit
NEXT GenNext
CHECK_DEADLOCK FALSE
