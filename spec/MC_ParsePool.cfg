SPECIFICATION Spec
CONSTANTS N = 4
MaxW = 3
INVARIANT TypeOK
INVARIANT OneTaskPerWorker
INVARIANT StartedOnce
INVARIANT Isolated
INVARIANT Equivalent
INVARIANT InOrder
PROPERTY Terminates
CHECK_DEADLOCK FALSE
