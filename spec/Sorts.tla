-------------------------------- MODULE Sorts --------------------------------
(***************************************************************************)
(* RzIL sort checker mirroring rz_il_validate (DESIGN.md 5.1): every path  *)
(* of an effect is checked, not only the one an execution takes.           *)
(*                                                                         *)
(* Sorts:  BVS(w)  bit vector of width w        BOOLS  boolean             *)
(*         FLS(fmt) float                       EXTS   non-IL argument     *)
(*         ERR(why) ill-sorted                                             *)
(*                                                                         *)
(*   SortOf(t, env)     sort of a pure                                     *)
(*   CheckEff(e, env)   environment after an effect (env.err # "" on error)*)
(*                                                                         *)
(* env = [loc  : local name -> sort (must never change: "a local variable  *)
(*               keeps a single width for its whole life"),                *)
(*        avail: locals certainly written on every path so far,            *)
(*        lets : LET-bound names in scope,                                 *)
(*        regw : resource key -> width, immw: set of immediate letters,    *)
(*        par  : parameter name -> sort (sub-routine bodies),              *)
(*        subs : name -> [params, psorts, body] of callable sub-routines,  *)
(*        err  : first error, maybe: reads of locals not written on all    *)
(*               paths (reported separately, C06)]                         *)
(***************************************************************************)
EXTENDS Naturals, Sequences, TLC

BVS(w) == [s |-> "bv", w |-> w]
BOOLS == [s |-> "bool"]
FLS(fmt) == [s |-> "float", fmt |-> fmt]
EXTS == [s |-> "ext"]
ERR(why) == [s |-> "err", why |-> why]
IsErr(x) == x.s = "err"
IsBVS(x) == x.s = "bv"

SKeyOf(rd) ==
    CASE rd.kind = "isa" -> "op:" \o rd.letter
      [] rd.kind = "nreg" -> "op:" \o rd.letter
      [] rd.kind = "explicit" -> "ex:" \o rd.cls \o ":" \o ToString(rd.num)
      [] rd.kind = "alias" -> "al:" \o rd.alias
      [] OTHER -> "??"

SameWidthOps == {"ADD", "SUB", "MUL", "DIV", "MOD", "LOGAND", "LOGOR", "LOGXOR"}
UnaryBVOps == {"LOGNOT", "NEG"}
ShiftOps == {"SHIFTL0", "SHIFTR0", "SHIFTRA"}
CmpOps == {"EQ", "ULT", "ULE", "UGT", "UGE", "SLT", "SLE", "SGT", "SGE"}
BoolBinOps == {"AND", "OR", "XOR"}
BVToBool == {"MSB", "NON_ZERO", "IS_ZERO"}
FloatFmtW(fmt) == IF fmt = "RZ_FLOAT_IEEE754_BIN_32" THEN 32 ELSE IF fmt = "RZ_FLOAT_IEEE754_BIN_64" THEN 64 ELSE 0

First(a, b) == IF IsErr(a) THEN a ELSE b

RECURSIVE SortOf(_, _)
SortOf(t, env) ==
    LET op == t.op
        A(i) == SortOf(t.args[i], env)
        n == Len(t.args)
    IN
    CASE op = "BV" -> IF t.w >= 1 /\ Len(t.v) = (t.w + 7) \div 8 THEN BVS(t.w) ELSE ERR("literal width")
      [] op \in {"IL_TRUE", "IL_FALSE"} -> BOOLS
      [] op = "VARL" -> IF t.name \in DOMAIN env.loc THEN env.loc[t.name] ELSE ERR("VARL of unknown local " \o t.name)
      [] op = "VARLP" -> IF t.name \in DOMAIN env.lets THEN env.lets[t.name] ELSE ERR("VARLP " \o t.name \o " not in scope of a LET")
      [] op = "LET" ->
            IF n # 2 THEN ERR("LET arity")
            ELSE LET s1 == A(1) IN
                 IF IsErr(s1) THEN s1 ELSE SortOf(t.args[2], [env EXCEPT !.lets = (t.name :> s1) @@ env.lets])
      [] op = "IMM" -> IF t.letter \in env.immw THEN BVS(t.w) ELSE ERR("unknown immediate " \o t.letter)
      [] op = "PC" -> BVS(32)
      [] op = "PARAM" -> IF t.name \in DOMAIN env.par THEN env.par[t.name] ELSE ERR("unknown parameter " \o t.name)
      [] op = "READ_REG" ->
            LET k == SKeyOf(t.reg) IN IF k \in DOMAIN env.regw THEN BVS(env.regw[k]) ELSE ERR("READ_REG of unknown operand " \o k)
      [] op \in SameWidthOps ->
            IF n # 2 THEN ERR(op \o " arity") ELSE
            LET a == A(1) b == A(2) IN
            IF IsErr(a) THEN a ELSE IF IsErr(b) THEN b
            ELSE IF IsBVS(a) /\ IsBVS(b) /\ a.w = b.w THEN a
            ELSE ERR(op \o " operands " \o ToString(a) \o " / " \o ToString(b))
      [] op \in UnaryBVOps ->
            IF n # 1 THEN ERR(op \o " arity") ELSE
            LET a == A(1) IN IF IsErr(a) THEN a ELSE IF IsBVS(a) THEN a ELSE ERR(op \o " operand " \o ToString(a))
      [] op \in ShiftOps ->
            IF n # 2 THEN ERR(op \o " arity") ELSE
            LET a == A(1) b == A(2) IN
            IF IsErr(a) THEN a ELSE IF IsErr(b) THEN b
            ELSE IF IsBVS(a) /\ IsBVS(b) THEN a ELSE ERR(op \o " operands " \o ToString(a) \o " / " \o ToString(b))
      [] op \in CmpOps ->
            IF n # 2 THEN ERR(op \o " arity") ELSE
            LET a == A(1) b == A(2) IN
            IF IsErr(a) THEN a ELSE IF IsErr(b) THEN b
            ELSE IF IsBVS(a) /\ IsBVS(b) /\ a.w = b.w THEN BOOLS
            ELSE ERR(op \o " operands " \o ToString(a) \o " / " \o ToString(b))
      [] op \in BoolBinOps ->
            IF n # 2 THEN ERR(op \o " arity") ELSE
            LET a == A(1) b == A(2) IN
            IF IsErr(a) THEN a ELSE IF IsErr(b) THEN b
            ELSE IF a = BOOLS /\ b = BOOLS THEN BOOLS ELSE ERR(op \o " operands " \o ToString(a) \o " / " \o ToString(b))
      [] op = "INV" ->
            LET a == A(1) IN IF IsErr(a) THEN a ELSE IF a = BOOLS THEN BOOLS ELSE ERR("INV operand " \o ToString(a))
      [] op \in BVToBool ->
            LET a == A(1) IN IF IsErr(a) THEN a ELSE IF IsBVS(a) THEN BOOLS ELSE ERR(op \o " operand " \o ToString(a))
      [] op = "CAST" ->
            LET f == A(1) x == A(2) IN
            IF IsErr(f) THEN f ELSE IF IsErr(x) THEN x
            ELSE IF f = BOOLS /\ IsBVS(x) /\ t.w >= 1 THEN BVS(t.w)
            ELSE ERR("CAST fill " \o ToString(f) \o " value " \o ToString(x))
      [] op \in {"UNSIGNED", "SIGNED"} ->
            LET x == A(1) IN IF IsErr(x) THEN x ELSE IF IsBVS(x) THEN BVS(t.w) ELSE ERR(op \o " operand " \o ToString(x))
      [] op \in {"INC", "DEC"} ->
            LET x == A(1) IN IF IsErr(x) THEN x ELSE IF IsBVS(x) /\ x.w = t.w THEN x ELSE ERR(op \o " width " \o ToString(t.w) \o " operand " \o ToString(x))
      [] op = "ITE" ->
            IF n # 3 THEN ERR("ITE arity") ELSE
            LET c == A(1) a == A(2) b == A(3) IN
            IF IsErr(c) THEN c ELSE IF IsErr(a) THEN a ELSE IF IsErr(b) THEN b
            ELSE IF c # BOOLS THEN ERR("ITE condition " \o ToString(c))
            ELSE IF a = b THEN a ELSE ERR("ITE arms " \o ToString(a) \o " / " \o ToString(b))
      [] op = "LOADW" ->
            LET a == A(1) IN IF IsErr(a) THEN a ELSE IF IsBVS(a) /\ a.w = 32 /\ t.w % 8 = 0 THEN BVS(t.w) ELSE ERR("LOADW address " \o ToString(a))
      [] op \in {"EXTRACT32", "EXTRACT64", "SEXTRACT64"} ->
            LET w == IF op = "EXTRACT32" THEN 32 ELSE 64 IN
            IF n # 3 THEN ERR(op \o " arity") ELSE
            LET a == A(1) b == A(2) c == A(3) IN
            IF IsErr(a) THEN a ELSE IF IsErr(b) THEN b ELSE IF IsErr(c) THEN c
            ELSE IF a = BVS(w) /\ b = BVS(32) /\ c = BVS(32) THEN BVS(w)
            ELSE ERR(op \o " operands " \o ToString(a) \o " / " \o ToString(b) \o " / " \o ToString(c))
      [] op \in {"DEPOSIT32", "DEPOSIT64"} ->
            LET w == IF op = "DEPOSIT32" THEN 32 ELSE 64 IN
            IF n # 4 THEN ERR(op \o " arity") ELSE
            LET a == A(1) b == A(2) c == A(3) d == A(4) IN
            IF IsErr(a) THEN a ELSE IF IsErr(b) THEN b ELSE IF IsErr(c) THEN c ELSE IF IsErr(d) THEN d
            ELSE IF a = BVS(w) /\ b = BVS(32) /\ c = BVS(32) /\ d = BVS(w) THEN BVS(w)
            ELSE ERR(op \o " operands " \o ToString(a) \o " / " \o ToString(b) \o " / " \o ToString(c) \o " / " \o ToString(d))
      [] op \in {"BSWAP16", "BSWAP32", "BSWAP64"} ->
            LET w == IF op = "BSWAP16" THEN 16 ELSE IF op = "BSWAP32" THEN 32 ELSE 64
                a == A(1)
            IN  IF IsErr(a) THEN a ELSE IF a = BVS(w) THEN a ELSE ERR(op \o " operand " \o ToString(a))
      [] op = "EXT" -> EXTS
      [] op = "UF" ->
            LET nm == t.name IN
            (CASE nm \in {"HEX_REGFIELD", "HEX_GET_CORRESPONDING_CS", "HEX_GET_NPC"} -> BVS(32)
              [] nm = "HEX_GET_INSN_RMODE" -> EXTS
              [] nm = "BV2F" ->
                    LET x == A(2) fmt == t.args[1].name IN
                    IF IsErr(x) THEN x ELSE IF IsBVS(x) /\ x.w = FloatFmtW(fmt) THEN FLS(fmt) ELSE ERR("BV2F operand " \o ToString(x))
              [] nm \in {"FADD", "FSUB", "FMUL", "FDIV"} ->
                    LET a == A(2) b == A(3) IN
                    IF IsErr(a) THEN a ELSE IF IsErr(b) THEN b
                    ELSE IF a.s = "float" /\ a = b THEN a ELSE ERR(nm \o " operands " \o ToString(a) \o " / " \o ToString(b))
              [] nm \in {"HEX_INT_TO_D", "HEX_SINT_TO_D"} ->
                    LET x == A(2) IN IF IsErr(x) THEN x ELSE IF x = BVS(64) THEN FLS("RZ_FLOAT_IEEE754_BIN_64") ELSE ERR(nm \o " operand " \o ToString(x))
              [] nm \in {"HEX_INT_TO_F", "HEX_SINT_TO_F"} ->
                    LET x == A(2) IN IF IsErr(x) THEN x ELSE IF x = BVS(64) THEN FLS("RZ_FLOAT_IEEE754_BIN_32") ELSE ERR(nm \o " operand " \o ToString(x))
              [] nm \in {"HEX_D_TO_INT", "HEX_D_TO_SINT", "HEX_F_TO_INT", "HEX_F_TO_SINT"} ->
                    LET x == A(2) IN IF IsErr(x) THEN x ELSE IF x.s = "float" THEN BVS(64) ELSE ERR(nm \o " operand " \o ToString(x))
              [] OTHER -> ERR("unknown plugin function " \o nm))
      [] op = "F2BV" ->
            LET x == A(1) IN IF IsErr(x) THEN x ELSE IF x.s = "float" THEN BVS(FloatFmtW(x.fmt)) ELSE ERR("F2BV operand " \o ToString(x))
      [] op \in {"FEQ", "FLT", "FGT", "FLE", "FGE"} ->
            LET a == A(1) b == A(2) IN
            IF IsErr(a) THEN a ELSE IF IsErr(b) THEN b
            ELSE IF a.s = "float" /\ a = b THEN BOOLS ELSE ERR(op \o " operands " \o ToString(a) \o " / " \o ToString(b))
      [] op = "IS_INF" ->
            LET a == A(1) IN IF IsErr(a) THEN a ELSE IF a.s = "float" THEN BOOLS ELSE ERR("IS_INF operand " \o ToString(a))
      [] OTHER -> ERR("not a pure: " \o op)

----------------------------------------------------------------------------
Fail(env, why) == IF env.err = "" THEN [env EXCEPT !.err = why] ELSE env

\* reads of locals that are not certainly written before (for C06: temporaries)
RECURSIVE Reads(_)
Reads(t) ==
    (IF t.op = "VARL" THEN {t.name} ELSE {})
        \cup UNION {Reads(t.args[i]) : i \in 1..Len(t.args)}

NotePure(t, env) ==
    LET s == SortOf(t, env)
        r == Reads(t) \ env.avail
    IN  [sort |-> s, env |-> [env EXCEPT !.maybe = env.maybe \cup r]]

RECURSIVE CheckEff(_, _)
RECURSIVE CheckSeq(_, _, _)
CheckSeq(es, i, env) == IF i > Len(es) THEN env ELSE CheckSeq(es, i + 1, CheckEff(es[i], env))

MergeBranch(a, b, base) ==
    \* both arms start from base; a local may be introduced in either arm but with one sort
    LET both == DOMAIN a.loc \cap DOMAIN b.loc
        bad == {n \in both : a.loc[n] # b.loc[n]}
        loc == [n \in DOMAIN a.loc \cup DOMAIN b.loc |-> IF n \in DOMAIN a.loc THEN a.loc[n] ELSE b.loc[n]]
        e1 == IF a.err # "" THEN a.err ELSE IF b.err # "" THEN b.err
              ELSE IF bad # {} THEN "local " \o (CHOOSE n \in bad : TRUE) \o " has different sorts in the two arms"
              ELSE ""
    IN  [base EXCEPT !.loc = loc, !.avail = a.avail \cap b.avail, !.err = IF base.err # "" THEN base.err ELSE e1,
                     !.maybe = a.maybe \cup b.maybe, !.nwrites = a.nwrites \cup b.nwrites]

CheckEff(e, env) ==
    LET op == e.op n == Len(e.args) IN
    IF env.err # "" THEN env ELSE
    CASE op \in {"NOP", "EMPTY", "SLOT_CANCEL"} -> env
      [] op = "GET_NPC" ->
            IF "ret_val" \in DOMAIN env.loc /\ env.loc["ret_val"] # BVS(64)
            THEN Fail(env, "local ret_val changes sort from " \o ToString(env.loc["ret_val"]) \o " to bv 64")
            ELSE [env EXCEPT !.loc = ("ret_val" :> BVS(64)) @@ env.loc, !.avail = env.avail \cup {"ret_val"}]
      [] op = "SEQN" -> IF e.n # n THEN Fail(env, "SEQN count " \o ToString(e.n) \o " with " \o ToString(n) \o " arguments") ELSE CheckSeq(e.args, 1, env)
      [] op = "SEQ2" -> IF n # 2 THEN Fail(env, "SEQ2 arity") ELSE CheckSeq(e.args, 1, env)
      [] op = "SETL" ->
            LET r == NotePure(e.args[1], env) s == r.sort en == r.env IN
            IF IsErr(s) THEN Fail(en, s.why)
            ELSE IF s.s = "ext" THEN Fail(en, "SETL " \o e.name \o " of a non-IL value")
            \* locals owned by the plugin (assumption A5): the jump target is read back as the 32-bit PC, the flag as a boolean
            ELSE IF e.name = "jump_target" /\ s # BVS(32) THEN Fail(en, "jump_target (the 32-bit PC) gets " \o ToString(s))
            ELSE IF e.name = "jump_flag" /\ s # BOOLS THEN Fail(en, "jump_flag (a boolean) gets " \o ToString(s))
            ELSE IF e.name \in DOMAIN en.loc /\ en.loc[e.name] # s
                 THEN Fail(en, "local " \o e.name \o " changes sort from " \o ToString(en.loc[e.name]) \o " to " \o ToString(s))
            ELSE [en EXCEPT !.loc = (e.name :> s) @@ en.loc, !.avail = en.avail \cup {e.name}]
      [] op = "WRITE_REG" ->
            LET r == NotePure(e.args[1], env) s == r.sort en == r.env k == SKeyOf(e.reg) IN
            IF IsErr(s) THEN Fail(en, s.why)
            ELSE IF k \notin DOMAIN en.regw THEN Fail(en, "WRITE_REG of unknown operand " \o k)
            ELSE IF s # BVS(en.regw[k]) THEN Fail(en, "WRITE_REG " \o k \o " (width " \o ToString(en.regw[k]) \o ") gets " \o ToString(s))
            ELSE [en EXCEPT !.nwrites = en.nwrites \cup {k}]
      [] op = "STOREW" ->
            LET ra == NotePure(e.args[1], env) rv == NotePure(e.args[2], ra.env) a == ra.sort v == rv.sort en == rv.env IN
            IF IsErr(a) THEN Fail(en, a.why) ELSE IF IsErr(v) THEN Fail(en, v.why)
            ELSE IF a # BVS(32) THEN Fail(en, "STOREW address " \o ToString(a))
            ELSE IF ~(IsBVS(v) /\ v.w % 8 = 0) THEN Fail(en, "STOREW value " \o ToString(v))
            ELSE en
      [] op = "BRANCH" ->
            IF n # 3 THEN Fail(env, "BRANCH arity") ELSE
            LET rc == NotePure(e.args[1], env) c == rc.sort en == rc.env IN
            IF IsErr(c) THEN Fail(en, c.why)
            ELSE IF c # BOOLS THEN Fail(en, "BRANCH condition " \o ToString(c))
            ELSE MergeBranch(CheckEff(e.args[2], en), CheckEff(e.args[3], en), en)
      [] op = "REPEAT" ->
            IF n # 2 THEN Fail(env, "REPEAT arity") ELSE
            LET rc == NotePure(e.args[1], env) c == rc.sort en == rc.env IN
            IF IsErr(c) THEN Fail(en, c.why)
            ELSE IF c # BOOLS THEN Fail(en, "REPEAT condition " \o ToString(c))
            ELSE LET b1 == CheckEff(e.args[2], en)
                     \* second pass: the body and the condition again in the environment the body leaves
                     b2 == IF b1.err # "" THEN b1
                           ELSE LET rc2 == NotePure(e.args[1], [b1 EXCEPT !.avail = en.avail]) IN
                                IF IsErr(rc2.sort) THEN Fail(rc2.env, rc2.sort.why) ELSE CheckEff(e.args[2], rc2.env)
                 IN  MergeBranch(b2, en, en)
      [] op = "CALL" ->
            IF e.name \notin DOMAIN env.subs THEN Fail(env, "call of unknown sub-routine " \o e.name)
            ELSE LET sr == env.subs[e.name] IN
                 IF Len(sr.params) # n THEN Fail(env, "call arity " \o e.name)
                 ELSE LET asorts == [i \in 1..n |-> SortOf(e.args[i], env)]
                          badi == {i \in 1..n : sr.psorts[i].s = "bv" /\ asorts[i] # sr.psorts[i]}
                          par == [nm \in {sr.params[i] : i \in 1..n} |-> sr.psorts[CHOOSE i \in 1..n : sr.params[i] = nm]]
                          en0 == [env EXCEPT !.maybe = env.maybe \cup (UNION {Reads(e.args[i]) : i \in 1..n} \ env.avail)]
                      IN  IF badi # {} THEN
                              LET i == CHOOSE j \in badi : TRUE IN
                              Fail(en0, "argument " \o ToString(i) \o " of " \o e.name \o ": " \o ToString(asorts[i]) \o " for parameter " \o ToString(sr.psorts[i]))
                          ELSE IF env.depth >= 6 THEN Fail(en0, "call depth")
                          ELSE LET inner == CheckEff(sr.body, [en0 EXCEPT !.par = par, !.depth = env.depth + 1])
                               IN  [inner EXCEPT !.par = env.par, !.depth = env.depth]
      [] OTHER -> Fail(env, "not an effect: " \o op)

Env0(regw, immw, par, subs) ==
    [loc |-> <<>>, avail |-> {}, lets |-> <<>>, regw |-> regw, immw |-> immw, par |-> par, subs |-> subs,
     err |-> "", maybe |-> {}, nwrites |-> {}, depth |-> 0]
=============================================================================
