------------------------------ MODULE Gen_C10 ------------------------------
(* Input space of C10/C12: comparison and logical results mixed with        *)
(* arithmetic, narrow and wide operands, compound assignments, heavy re-use *)
(* of operands (DUP), conditions in every position.                         *)
EXTENDS CSyntax, Json, IOUtils, SequencesExt

Seed == atoi(IOEnv.VERIF_SEED)
Tier == IOEnv.VERIF_TIER
A == Var("a")  Bv == Var("b")  C == Var("c")
BoolE == << Bin("<", A, Bv), Bin("==", Bv, C), Un("!", A), Bin("&&", A, Bv), Bin("||", Bin(">", A, C), Bv),
            Bin("!=", CastE(U8, A), Bv), Bin(">=", C, NumN(0)) >>
ArithOps == <<"+", "-", "*", "&", "|", "^", "<<", ">>">>
T8 == Types8

Mix(i) ==
    LET be == BoolE[(H3(Seed, i, 1) % Len(BoolE)) + 1]
        be2 == BoolE[(H3(Seed, i, 2) % Len(BoolE)) + 1]
        o == ArithOps[(H3(Seed, i, 3) % Len(ArithOps)) + 1]
        ta == T8[(H3(Seed, i, 4) % 8) + 1]
        tb == T8[(H3(Seed, i, 5) % 8) + 1]
        tc == T8[(H3(Seed, i, 6) % 8) + 1]
        tr == T8[(H3(Seed, i, 7) % 8) + 1]
        kind == i % 8
        e == CASE kind = 0 -> Bin(o, be, Bv)
               [] kind = 1 -> Bin(o, A, be)
               [] kind = 2 -> Cond(be, be2, A)
               [] kind = 3 -> Bin("+", Bin(o, A, A), Bin("*", A, Bin("-", A, Bv)))       \* heavy re-use
               [] kind = 4 -> Un("~", be)
               [] kind = 5 -> Bin("==", be, be2)
               [] kind = 6 -> Cond(A, Bin(o, Bv, C), be)
               [] kind = 7 -> Un("-", CastE(tr, be))
        stmts == CASE kind \in {0, 1, 2} -> << Decl(tr, "r", e), If(be2, << ExprS(Assign(Var("r"), "+=", A)) >>) >>
                   [] kind = 3 -> << Decl(tr, "r", e), ExprS(Assign(Var("r"), "^=", e)), Set(Rdd, e) >>
                   [] kind \in {4, 5} -> << Decl(tr, "r", e), For(Set(Var("i"), NumN(0)), Bin("<", Var("i"), NumN(2)), Postfix("++", Var("i")),
                                                                << ExprS(Assign(Var("r"), "|=", be)) >>) >>
                   [] OTHER -> << Decl(tr, "r", e), IfElse(e, << Set(Rdd, A) >>, << Set(Rdd, be) >>) >>
    IN  [ id |-> "mx-" \o ToString(i), tags |-> <<"mix", ToString(kind)>>, fam |-> "std",
          body |-> << Decl(ta, "a", Rss), Decl(tb, "b", Rtt), Decl(tc, "c", Ruu) >> \o stmts ]

NProg == IF Tier = "thorough" THEN 2000 ELSE 240
\* postfix ++ / -- on a local of every integer type: as a used value, as an unused statement and as the step of a loop
\* (INC / DEC must work in the width of the variable)
PostProgs ==
    Flatten([i \in 1..8 |->
        LET t == T8[i] K == Var("k") nm == ToString(i) IN
        << [ id |-> "pf-use-" \o nm, tags |-> <<"postfix", "use">>, fam |-> "std",
             body |-> << Decl(t, "k", Rss), Decl(T8[((i + 2) % 8) + 1], "r", Postfix("++", K)), Set(Rdd, Bin("+", K, Var("r"))) >> ],
           [ id |-> "pf-dec-" \o nm, tags |-> <<"postfix", "dec">>, fam |-> "std",
             body |-> << Decl(t, "k", Rss), Decl(S64, "r", Postfix("--", K)), Set(Rdd, Bin("+", K, Var("r"))) >> ],
           [ id |-> "pf-step-" \o nm, tags |-> <<"postfix", "step">>, fam |-> "std",
             body |-> << Decl(t, "k", NumN(0)), Decl(S64, "r", NumN(0)),
                         For(Set(K, NumN(0)), Bin("<", K, NumN(3)), Postfix("++", K), << ExprS(Assign(Var("r"), "+=", K)) >>), Set(Rdd, Var("r")) >> ] >>])
Programs == [i \in 1..NProg |-> Mix(i)] \o PostProgs

VARIABLE x
Init == x = JsonSerialize(IOEnv.GEN_OUT, Programs)
Next == FALSE /\ x' = x
=============================================================================
