------------------------------- MODULE Dialect -------------------------------
(* Acceptance side of C01/C15: which parsed behaviours stay within the       *)
(* supported dialect (CSem!InDialect).  One TLC state per source tree.       *)
EXTENDS CSem, Json, IOUtils, TLCExt

Data == JsonDeserialize(IOEnv.TV_FILE)
Srcs == Data.srcs            \* sequence of [id, body]
CSubs == Data.csubs
VARIABLES c, verdict
vars == <<c, verdict>>
Init == c \in 1..Len(Srcs) /\ verdict = <<>>
Next == /\ verdict = <<>>
        /\ LET ok == InDialect(Srcs[c].body, [csubs |-> CSubs, ext |-> FALSE])
               mean == HasMeaning(Srcs[c].body, [csubs |-> CSubs, ext |-> TRUE])
           IN  verdict' = <<ok>> /\ PrintT("DLREPORT " \o ToJson([id |-> Srcs[c].id, ok |-> ok, meaning |-> mean]))
        /\ UNCHANGED c
Spec == Init /\ [][Next]_vars
=============================================================================
