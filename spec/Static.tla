------------------------------- MODULE Static -------------------------------
(***************************************************************************)
(* Per-artefact (input independent) validation of observed compiler output:*)
(*   sorts : Sorts!CheckEff on the observed effect term, all paths   (C10) *)
(*   emitc : EmitC state machine over the statements of the text (C11/C12) *)
(* One TLC state per (case, artefact); the work is done in Next.           *)
(***************************************************************************)
EXTENDS CSem, Sorts, EmitC, Attrs, Json, IOUtils, TLCExt

Data == JsonDeserialize(IOEnv.TV_FILE)
Cases == Data.cases
ILSubs == Data.subs
CSubs == Data.csubs
Known == {Data.known[i] : i \in 1..Len(Data.known)}
Allowed == {Data.allowed[i] : i \in 1..Len(Data.allowed)}

VARIABLES c, a, verdict
vars == <<c, a, verdict>>

PSort(p) == IF p.kind = "val" THEN BVS(p.t.w) ELSE EXTS

\* sub-routine table for the sort checker: observed body + declared parameter sorts
SubTab ==
    [n \in (DOMAIN ILSubs \cap DOMAIN CSubs) |->
        [ params |-> ILSubs[n].params,
          psorts |-> [i \in 1..Len(CSubs[n].params) |-> PSort(CSubs[n].params[i])],
          body |-> ILSubs[n].body ]]

RegWidths(cs) == [k \in {RegKey(cs.regs[i]) : i \in 1..Len(cs.regs)} |->
                RegType(cs.regs[CHOOSE i \in 1..Len(cs.regs) : RegKey(cs.regs[i]) = k]).w]

ParSorts(cs) ==
    IF cs.src.kind = "sub"
    THEN [n \in {cs.src.params[i].n : i \in 1..Len(cs.src.params)} |->
             PSort(cs.src.params[CHOOSE i \in 1..Len(cs.src.params) : cs.src.params[i].n = n])]
    ELSE <<>>

SortVerdict(cs, o) ==
    LET env == CheckEff(o.term, Env0(RegWidths(cs), {cs.imms[i] : i \in 1..Len(cs.imms)}, ParSorts(cs), SubTab))
    IN  [err |-> env.err, maybe |-> env.maybe, loc |-> env.loc]

EmitVerdict(cs, o) ==
    LET amb == {o.ambient[i] : i \in 1..Len(o.ambient)}
        st == RunEvents(Init0(amb), o.events, 1, Known, Allowed)
    IN  st.bad

\* attributes reported with this artefact (C13); artefacts without a meta list are not judged
MetaVerdict(cs, o) ==
    IF "meta" \in DOMAIN o THEN AttrVerdict(cs.attr_body, cs.noped, o.meta) ELSE ""

Check(ci, ai) ==
    LET cs == Cases[ci] o == cs.obs[ai]
    IN  [sort |-> SortVerdict(cs, o), emitc |-> EmitVerdict(cs, o), meta |-> MetaVerdict(cs, o)]

Report(ci, ai, v) ==
    IF v.sort.err = "" /\ v.emitc = "" /\ v.meta = "" THEN TRUE
    ELSE PrintT("STREPORT " \o ToJson([id |-> Cases[ci].id, fmt |-> Cases[ci].obs[ai].fmt,
                                        sort |-> v.sort.err, emitc |-> v.emitc, meta |-> v.meta]))

Init == c \in 1..Len(Cases) /\ a \in 1..Len(Cases[c].obs) /\ verdict = <<>>
Next == /\ verdict = <<>>
        /\ LET v == Check(c, a) IN verdict' = <<v>> /\ Report(c, a, v)
        /\ UNCHANGED <<c, a>>
Spec == Init /\ [][Next]_vars

WellSorted == \A i \in 1..Len(verdict) : verdict[i].sort.err = ""
WellFormed == \A i \in 1..Len(verdict) : verdict[i].emitc = ""
AttrsExact == \A i \in 1..Len(verdict) : verdict[i].meta = ""
=============================================================================
