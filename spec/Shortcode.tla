------------------------------ MODULE Shortcode ------------------------------
(***************************************************************************)
(* C19: the line format of the resolved shortcode and the compound format. *)
(*                                                                         *)
(*   Line(name, body) == "insn(" name ", " body ")"                        *)
(* A line is well-formed iff it is Line(name, body) for a non-empty ASCII   *)
(* word `name' and a non-empty `body' (any characters but a newline); the  *)
(* decomposition is unique because a word cannot contain ", ".  Everything *)
(* else (text before insn(, missing separator or parenthesis, trailing     *)
(* blanks, empty line) is malformed and must be rejected, not skipped.     *)
(*                                                                         *)
(*   Compound(pre, p1, post) == "{" pre MARK "{" p1 "}" MARK post "}"      *)
(* Splitting must return two brace-balanced blocks whose statement lists   *)
(* concatenate to pre ++ p1 ++ post.                                       *)
(*                                                                         *)
(* The module generates the cases (GEN mode) and validates the call events *)
(* recorded from the real functions (CHECK mode).                          *)
(***************************************************************************)
EXTENDS Naturals, Sequences, TLC, Json, IOUtils

MARK == "__COMPOUND_PART1__"
Line(name, body) == "insn(" \o name \o ", " \o body \o ")"

RECURSIVE Cat(_)
Cat(ss) == IF ss = <<>> THEN "" ELSE Head(ss) \o Cat(Tail(ss))

NameAtoms == <<"A", "b9", "_", "J2_x">>
BodyAtoms == <<"(", ")", "{", "}", ",", ", ", ";", " ", "a", "f(", "insn(", "#">>
NA == Len(BodyAtoms)

\* the i-th sequence of body atoms of length len (base-NA digits of i)
RECURSIVE AtomSeq(_, _)
AtomSeq(i, len) == IF len = 0 THEN <<>> ELSE <<BodyAtoms[(i % NA) + 1]>> \o AtomSeq(i \div NA, len - 1)

MaxLen == IF IOEnv.VERIF_TIER = "thorough" THEN 5 ELSE 4
RECURSIVE Pow(_, _)
Pow(b, e) == IF e = 0 THEN 1 ELSE b * Pow(b, e - 1)

WellFormedOfLen(len) ==
    [i \in 1..Pow(NA, len) |->
        LET body == Cat(AtomSeq(i - 1, len))
            name == NameAtoms[(i % 4) + 1]
        IN  [kind |-> "line", line |-> Line(name, body), wf |-> TRUE, name |-> name, body |-> body]]

Malformed ==
    LET bodies == <<"{a;}", "{f(a, b);}", "{ if (a) { b; } }">> IN
    [i \in 1..(3 * 9) |->
        LET b == bodies[((i - 1) % 3) + 1]
            v == ((i - 1) \div 3) + 1
            line == CASE v = 1 -> "insn(A, " \o b                         \* missing closing parenthesis
                      [] v = 2 -> "x insn(A, " \o b \o ")"                \* text before insn(
                      [] v = 3 -> "insn(A," \o b \o ")"                   \* separator without blank
                      [] v = 4 -> "insn(, " \o b \o ")"                   \* empty name
                      [] v = 5 -> "insn(A, )"                             \* empty body
                      [] v = 6 -> "insn(A, " \o b \o ") "                 \* trailing blank
                      [] v = 7 -> ""                                      \* empty line
                      [] v = 8 -> "insn(A-1, " \o b \o ")"                \* name is not a word
                      [] v = 9 -> "insn (A, " \o b \o ")"                 \* blank after insn
        IN  [kind |-> "line", line |-> line, wf |-> FALSE, name |-> "", body |-> "", variant |-> v]]

\* compound bodies from small statement lists
StmtAtoms == <<"a;", "f(b, c);", "{ d; }", "if (e) { g; }", "P0 = 1;">>
NS == Len(StmtAtoms)
RECURSIVE StmtSeq(_, _)
StmtSeq(i, len) == IF len = 0 THEN <<>> ELSE <<StmtAtoms[(i % NS) + 1]>> \o StmtSeq(i \div NS, len - 1)
RECURSIVE Join(_)
Join(ss) == IF ss = <<>> THEN "" ELSE Head(ss) \o " " \o Join(Tail(ss))

Compounds ==
    \* lengths (pre, p1, post) in 0..2 x 1..2 x 0..2, contents by index
    [i \in 1..(3 * 2 * 3 * 25) |->
        LET lp == (i - 1) % 3
            l1 == (((i - 1) \div 3) % 2) + 1
            lq == ((i - 1) \div 6) % 3
            c == (i - 1) \div 18
            pre == StmtSeq(c, lp)
            p1 == StmtSeq(c + 1, l1)
            post == StmtSeq(c + 2, lq)
        IN  [kind |-> "compound",
             body |-> "{" \o Join(pre) \o MARK \o "{ " \o Join(p1) \o "}" \o MARK \o " " \o Join(post) \o "}",
             stmts |-> pre \o p1 \o post, npre |-> lp]]

RECURSIVE AllWF(_)
AllWF(len) == IF len = 0 THEN <<>> ELSE AllWF(len - 1) \o WellFormedOfLen(len)
GenCases == AllWF(MaxLen) \o Malformed \o Compounds

----------------------------------------------------------------------------
\* CHECK mode: events [i |-> case index, out |-> "ok"/"raised", name, body, parts..]
Data == JsonDeserialize(IOEnv.TV_FILE)
Cases == Data.cases
Events == Data.events

Verdict(e) ==
    LET cs == Cases[e.i] IN
    IF cs.kind = "line" THEN
        IF cs.wf THEN
            IF e.out # "ok" THEN "well-formed line rejected"
            ELSE IF e.name # cs.name THEN "wrong NAME recovered"
            ELSE IF e.body # cs.body THEN "wrong BODY recovered"
            ELSE "ok"
        ELSE IF e.out = "ok" THEN "malformed line accepted" ELSE "ok"
    ELSE
        IF e.out # "ok" THEN "compound body rejected"
        ELSE IF ~e.balanced THEN "a returned part is not a brace-balanced block"
        ELSE IF e.stmts # cs.stmts THEN "statements lost, added or reordered by the split"
        ELSE "ok"

VARIABLES x, verdict, g
Init == x \in 1..Len(Events) /\ verdict = "todo" /\ g = TRUE
Next == /\ verdict = "todo"
        /\ LET v == Verdict(Events[x])
           IN  verdict' = v /\ (IF v = "ok" THEN TRUE ELSE PrintT("SCREPORT " \o ToJson([i |-> Events[x].i, v |-> v])))
        /\ UNCHANGED <<x, g>>
Spec == Init /\ [][Next]_<<x, verdict, g>>

\* GEN mode
GenInit == g = JsonSerialize(IOEnv.GEN_OUT, GenCases) /\ x = 0 /\ verdict = "gen"
GenNext == FALSE /\ g' = g /\ UNCHANGED <<x, verdict>>
=============================================================================
