SPECIFICATION Spec
CONSTANTS Insts = {1, 2}
NB = 12
MaxHist = 5
D1_PredsClassLevel = FALSE
D2_NoResetOnFailure = TRUE
VIEW View
INVARIANT HistoryIndependent
INVARIANT AttrsOwn
INVARIANT CleanBetweenCalls
CHECK_DEADLOCK FALSE
