------------------------------ MODULE Gen_C08 ------------------------------
(***************************************************************************)
(* Input space of C08: generated sub-routines (parameter and return types  *)
(* over the eight integer types; bodies with locals, branches, loops,      *)
(* nested calls, early and multiple returns) registered through the public *)
(* API, and call sites with 1..4 calls per expression mixing bundled and   *)
(* generated callees, caller locals whose names also occur in a callee,    *)
(* caller temporaries that are live across a call.  Every program is       *)
(* compiled both on long-lived compilers and on a fresh compiler (the      *)
(* numbering of compiler temporaries differs).                             *)
(***************************************************************************)
EXTENDS CSyntax, Json, IOUtils, SequencesExt

Seed == atoi(IOEnv.VERIF_SEED)
Tier == IOEnv.VERIF_TIER
K(n) == NumN(n)
A == Var("a")  X == Var("x")  Y == Var("y")  T_ == Var("t")  Pp == Var("p")  Qq == Var("q")
SubR(name, ret, params, body) == [name |-> name, void |-> FALSE, ret |-> ret, params |-> params, body |-> body]
Par(n, t) == [n |-> n, t |-> t]

IdSubs == [i \in 1..8 |-> SubR("sid_" \o TName(Types8[i]), Types8[i], << Par("p", Types8[i]) >>, << Return(Pp) >>)]
OtherSubs ==
    << SubR("smax", S32, << Par("p", S32), Par("q", S32) >>, << IfElse(Bin("<", Pp, Qq), << Return(Qq) >>, << Return(Pp) >>) >>),
       SubR("searly", S32, << Par("p", S32) >>, << If(Bin("<", Pp, K(0)), << Return(K(0)) >>), Return(Bin("*", Pp, K(2))) >>),
       SubR("sloc", S32, << Par("p", S32) >>, << Decl(S32, "t", Bin("*", Pp, K(3))), Set(T_, Bin("+", T_, K(1))), Return(T_) >>),
       SubR("sloop", U32, << Par("p", U32) >>,
           << Decl(U32, "acc", K(0)), For(Set(Var("i"), K(0)), Bin("<", Var("i"), Bin("&", Pp, K(3))), Postfix("++", Var("i")),
                                          << ExprS(Assign(Var("acc"), "+=", Bin("+", Pp, Var("i")))) >>), Return(Var("acc")) >>),
       SubR("snest", S32, << Par("p", S32) >>, << Return(Bin("+", Call("smax", <<Pp, K(5)>>), CastE(S32, Call("clz32", <<CastE(U32, Pp)>>)))) >>),
       SubR("snarrow", U8, << Par("p", S64), Par("q", U16) >>, << Return(Bin("+", Pp, Qq)) >>),
       SubR("spost", S32, << Par("p", S32) >>, << Decl(S32, "c", Pp), Decl(S32, "d", Postfix("++", Var("c"))), Return(Bin("+", Var("c"), Var("d"))) >>),
       \* nested calls whose callees have temporaries of their own and the SAME parameter names as the caller, while a
       \* temporary of the caller (the first call's result) is live
       SubR("stwice", S32, << Par("p", S32) >>, << Return(Bin("+", Call("spost", <<Pp>>), Call("spost", <<Bin("+", Pp, K(10))>>))) >>),
       SubR("sdeep", S32, << Par("p", S32) >>, << Return(Bin("-", Call("stwice", <<Pp>>), Call("snest", <<Bin("+", Pp, K(1))>>))) >>),
       \* the same operand passed twice to parameters of different types (each argument converted to ITS parameter's type)
       SubR("sdup", S64, << Par("p", S32), Par("q", S8) >>, << Return(Bin("+", Bin("*", CastE(S64, Pp), K(256)), Qq)) >>),
       SubR("sdup3", U64, << Par("p", U8), Par("q", S32), Par("r", U16) >>,
            << Return(Bin("+", Bin("+", Bin("*", CastE(U64, Pp), K(65536)), Bin("*", CastE(U64, CastE(U32, Qq)), K(16777216))), Var("r"))) >>),
       \* the returned expression is a comparison / logical value (converted to the return type as 0 / 1)
       SubR("sgt", S32, << Par("p", S32), Par("q", S32) >>, << Return(Bin(">", Pp, Qq)) >>),
       SubR("snot", U8, << Par("p", S64) >>, << Return(Un("!", Pp)) >>),
       SubR("sland", S64, << Par("p", S32), Par("q", S32) >>, << Return(Bin("&&", Bin("!=", Pp, K(0)), Bin("<", Qq, K(0)))) >>),
       SubR("sselb", S32, << Par("p", S32), Par("q", S32) >>, << Return(Bin("+", Call("sgt", <<Pp, Qq>>), Bin("*", Call("sgt", <<Qq, Pp>>), K(2)))) >>),
       SubR("sdeep2", S32, << Par("q", S32), Par("p", S32) >>, << Return(Bin("+", Call("spost", <<Qq>>), Call("stwice", <<Pp>>))) >>) >>
Subs == IdSubs \o OtherSubs

Prologue == << Decl(S32, "a", Rs), Decl(S32, "x", Rt), Decl(S64, "y", K(0)) >>
Epilogue == << Set(Rdd, Y) >>
P(id, stmts, tags) == [id |-> id, body |-> Prologue \o stmts \o Epilogue, tags |-> tags, fam |-> "std", gk |-> <<>>]

C1(f, e) == Call(f, <<e>>)
Calls == << C1("searly", A), C1("sloc", A), C1("sloop", CastE(U32, A)), C1("snest", X), Call("smax", <<A, X>>),
            Call("snarrow", <<CastE(S64, A), CastE(U16, X)>>), C1("spost", X), C1("clz32", CastE(U32, X)), C1("fbrev", CastE(U32, A)),
            C1("clo32", CastE(U32, A)), C1("revbit32", CastE(U32, X)), C1("stwice", A), C1("sdeep", X), Call("sdeep2", <<A, X>>),
            Call("sgt", <<A, X>>), C1("snot", CastE(S64, A)), Call("sland", <<A, X>>), Call("sselb", <<A, X>>),
            Call("sdup", <<A, A>>), Call("sdup", <<X, A>>), Call("sdup3", <<X, X, X>>), Call("sdup3", <<A, X, A>>) >>
NC == Len(Calls)

IdProgs == [i \in 1..64 |->
              LET s == Types8[((i - 1) \div 8) + 1] t == Types8[((i - 1) % 8) + 1]
              IN  P("c8-id-" \o TName(s) \o "-" \o TName(t), << Decl(s, "v", Ruu), Set(Y, C1("sid_" \o TName(t), Var("v"))) >>, <<"idcall">>)]
OneCall == [i \in 1..NC |-> P("c8-one-" \o ToString(i), << Set(Y, Calls[i]) >>, <<"onecall">>)]
Multi ==
    [i \in 1..(IF Tier = "thorough" THEN 300 ELSE 60) |->
        LET c(j) == Calls[(H3(Seed, i, j) % NC) + 1]
            n == 2 + (i % 3)
            e == IF n = 2 THEN Bin("+", c(1), c(2))
                 ELSE IF n = 3 THEN Bin("-", Bin("+", c(1), c(2)), c(3))
                 ELSE Bin("+", Bin("^", c(1), c(2)), Bin("-", c(3), c(4)))
        IN  P("c8-multi-" \o ToString(i), << Set(Y, e) >>, <<"multicall", ToString(n)>>)]
Special ==
    << \* the caller has a local named like a callee local
       P("c8-nameclash", << Decl(S32, "t", X), Set(Y, C1("sloc", A)), Set(Y, Bin("+", Y, T_)) >>, <<"nameclash">>),
       \* a caller temporary is live across a call whose body numbers its own temporaries
       P("c8-livetmp", << Set(Y, Bin("+", Postfix("++", X), C1("snest", A))) >>, <<"livetmp">>),
       P("c8-livetmp2", << Set(Y, Bin("+", Postfix("++", X), C1("fbrev", CastE(U32, A)))) >>, <<"livetmp">>),
       P("c8-livetmp3", << Set(Y, Bin("+", C1("sloc", A), C1("spost", X))) >>, <<"livetmp">>),
       P("c8-inloop", << For(Set(Var("i"), K(0)), Bin("<", Var("i"), K(3)), Postfix("++", Var("i")), << Set(Y, Bin("+", Y, Call("smax", <<A, CastE(S32, Var("i"))>>))) >>) >>, <<"inloop">>),
       P("c8-incond", << IfElse(Bin(">", C1("searly", A), K(4)), << Set(Y, K(1)) >>, << Set(Y, K(2)) >>) >>, <<"incond">>),
       P("c8-argcall", << Set(Y, Call("smax", << C1("sloc", A), C1("searly", X) >>)) >>, <<"argcall">>),
       P("c8-twice", << Set(Y, C1("sloc", A)), Set(Y, Bin("+", Y, C1("sloc", X))) >>, <<"twice">>) >>

Programs == IdProgs \o OneCall \o Multi \o Special
Out == [programs |-> Programs, subs |-> Subs]

VARIABLE x
Init == x = JsonSerialize(IOEnv.GEN_OUT, Out)
Next == FALSE /\ x' = x
=============================================================================
