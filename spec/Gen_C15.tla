------------------------------ MODULE Gen_C15 ------------------------------
(***************************************************************************)
(* Input space of C15: each construct of the bundled grammar that the      *)
(* transformer has no translation for -- break, continue, goto, labels,    *)
(* case/default/switch, comma expressions, while, do, calls of unknown     *)
(* functions, array / member access, prefix ++/--, unary * and & -- placed *)
(* at statement and expression positions around supported code whose       *)
(* effects are distinguishable (x = x*3+k).                                *)
(***************************************************************************)
EXTENDS CSyntax, Json, IOUtils, SequencesExt

K(n) == NumN(n)
A == Var("a")  X == Var("x")  I == Var("i")
Upd(v, k) == Set(v, Bin("+", Bin("*", v, K(3)), K(k)))
Prologue == << Decl(S32, "a", Rs), Decl(S32, "x", Rt) >>
Epilogue == << Set(Rd, X) >>
P(id, stmts, tags) == [id |-> id, body |-> Prologue \o stmts \o Epilogue, tags |-> tags, fam |-> "low5", gk |-> <<"op:t">>]

While(c, b) == [k |-> "while", c |-> c, body |-> b]
DoWhile(c, b) == [k |-> "do", c |-> c, body |-> b]
Break == [k |-> "break"]
Continue == [k |-> "continue"]
Goto(l) == [k |-> "goto", n |-> l]
Label(l, s) == [k |-> "label", n |-> l, s |-> s]
Switch(c, b) == [k |-> "switch", c |-> c, body |-> b]
Case(c, s) == [k |-> "case", c |-> c, s |-> s]
Default(s) == [k |-> "default", s |-> s]
Comma(a, b) == [k |-> "comma", a |-> a, b |-> b]
Prefix(o, a) == [k |-> "prefix", o |-> o, a |-> a]
Index(a, i) == [k |-> "index", a |-> a, i |-> i]
Member(a, o, m) == [k |-> "member", a |-> a, o |-> o, m |-> m]
Deref(a) == [k |-> "deref", a |-> a]
Addr(a) == [k |-> "addr", a |-> a]
Loop(b) == For(Set(I, K(0)), Bin("<", I, K(3)), Postfix("++", I), b)

\* statement-level constructs, each to be dropped into a statement position
StmtCons ==
    << <<"while", While(Bin("<", X, K(100)), << Upd(X, 1) >>)>>,
       <<"do", DoWhile(Bin("<", X, K(100)), << Upd(X, 1) >>)>>,
       <<"break-in-loop", Loop(<< Upd(X, 1), If(Bin("&", A, K(1)), << Break >>), Upd(X, 2) >>)>>,
       <<"continue-in-loop", Loop(<< Upd(X, 1), If(Bin("&", A, K(1)), << Continue >>), Upd(X, 2) >>)>>,
       <<"break-toplevel", Break>>,
       <<"goto", Goto("end")>>,
       <<"label", Label("end", Upd(X, 5))>>,
       <<"goto-label", Block(<< Goto("skip"), Upd(X, 1), Label("skip", Upd(X, 2)) >>)>>,
       <<"switch", Switch(Bin("&", A, K(1)), << Case(K(0), Upd(X, 1)), Break, Default(Upd(X, 2)) >>)>>,
       <<"switch-nolabel", Switch(Bin("&", A, K(1)), << Upd(X, 1) >>)>>,
       <<"switch-default-only", Switch(Bin("&", A, K(1)), << Default(Upd(X, 2)) >>)>>,
       <<"comma-stmt", ExprS(Comma(Assign(X, "=", Bin("+", X, K(1))), Assign(X, "=", Bin("*", X, K(2)))))>>,
       <<"unknown-call-stmt", ExprS(Call("frobnicate", <<A>>))>>,
       <<"unknown-call0-stmt", ExprS(Call("frobnicate", <<>>))>>,
       \* unknown functions whose names are prefixes / infixes of names the compiler treats specially
       <<"unknown-call-f", ExprS(Call("f", <<A>>))>>,
       <<"unknown-call-fat", ExprS(Call("fat", <<A>>))>>,
       <<"unknown-call-tal", ExprS(Call("tal", <<A, X>>))>>,
       <<"unknown-call-clz", ExprS(Call("clz", <<A>>))>>,
       <<"unknown-call-store", ExprS(Call("MEM_STORE", <<A>>))>>,
       <<"prefix-stmt", ExprS(Prefix("++", X))>>,
       <<"index-assign", ExprS(Assign(Index(Var("arr"), K(1)), "=", A))>>,
       <<"member-assign", ExprS(Assign(Member(Var("s"), ".", "f"), "=", A))>>,
       <<"deref-assign", ExprS(Assign(Deref(Var("p")), "=", A))>>
    >>
\* expression-level constructs, each to be used as a value
ExprCons ==
    << <<"comma-expr", Comma(Assign(X, "=", Bin("+", X, K(1))), Bin("+", X, K(2)))>>,
       <<"unknown-call", Call("frobnicate", <<A>>)>>,
       <<"unknown-call0", Call("frobnicate", <<>>)>>,
       <<"prefix-inc", Prefix("++", X)>>,
       <<"prefix-dec", Prefix("--", X)>>,
       <<"index", Index(Var("arr"), A)>>,
       <<"member", Member(Var("s"), ".", "f")>>,
       <<"arrow", Member(Var("ps"), "->", "f")>>,
       <<"deref", Deref(Var("p"))>>,
       <<"addr", Addr(X)>>
    >>

\* supported statements whose LAST item must not get lost: statement-expressions used as statements with one / several
\* inner statements and an assignment, a store-free expression or a nested statement-expression as their last item; blocks
\* and loops ending in such statements
SE(body, e) == ExprS(StmtExpr(body, e))
SuppCons ==
    << <<"se-list-assign", SE(<< Upd(X, 4), Set(Rx, K(3)) >>, Assign(X, "=", Bin("+", X, K(1))))>>,
       <<"se-one-assign", SE(<< Upd(X, 4) >>, Assign(X, "=", Bin("+", X, K(1))))>>,
       <<"se-only-assign", SE(<< >>, Assign(X, "=", Bin("+", X, K(1))))>>,
       <<"se-list-compound", SE(<< Upd(X, 4), Upd(X, 5) >>, Assign(X, "+=", A))>>,
       <<"se-nested", SE(<< Upd(X, 4) >>, StmtExpr(<< Upd(X, 5) >>, Assign(X, "=", Bin("+", X, K(1)))))>>,
       <<"se-list-nested", SE(<< Upd(X, 4), Upd(X, 5) >>, StmtExpr(<< Upd(X, 6), Upd(X, 7) >>, Assign(X, "=", Bin("+", X, K(1)))))>>,
       \* a local variable named like an operation of the compiler (known finding KF-D9c)
       <<"name-clash-branch", Block(<< Decl(S32, "branch", K(0)), If(Bin("&", A, K(1)), << Upd(X, 4) >>), Upd(X, 5) >>)>>,
       <<"name-clash-op", Block(<< Decl(S32, "op_ADD", K(5)), Set(X, Bin("+", X, Var("op_ADD"))) >>)>>,
       <<"se-list-value", Set(A, StmtExpr(<< Upd(X, 4), Upd(X, 5) >>, Bin("+", X, K(1))))>>,
       <<"block-list", Block(<< Upd(X, 4), Set(Rx, K(3)), Upd(X, 5) >>)>>,
       <<"if-noelse-list", If(Bin("&", A, K(1)), << Upd(X, 4), Upd(X, 5), Upd(X, 6) >>)>>,
       <<"ifelse-list", IfElse(Bin("&", A, K(1)), << Upd(X, 4), Upd(X, 5) >>, << Upd(X, 6), Upd(X, 7), Upd(X, 8) >>)>>,
       <<"for-list", Loop(<< Upd(X, 4), Upd(X, 5), Upd(X, 6) >>)>>,
       <<"for-step-assign", For(Set(I, K(0)), Bin("<", I, K(3)), Assign(I, "=", Bin("+", I, K(1))), << Upd(X, 4) >>)>>,
       <<"for-step-compound", For(Set(I, K(0)), Bin("<", I, K(4)), Assign(I, "+=", K(2)), << Upd(X, 4), Upd(X, 5) >>)>>,
       <<"empty-then-stmt", Block(<< [k |-> "empty"], Upd(X, 4), [k |-> "empty"], Upd(X, 5) >>)>>
    >>

\* supported side-effecting sub-expressions nested in one another (each must show up in the effect sequence)
SuppExprCons ==
    << <<"call-of-postfix", Call("clz32", <<CastE(U32, Postfix("++", X))>>)>>,
       <<"call-of-call", Call("clo32", <<Call("clz32", <<CastE(U32, A)>>)>>)>>,
       <<"call-of-not-call", Call("clo32", <<Un("~", Call("revbit32", <<CastE(U32, A)>>))>>)>>,
       <<"call-of-stmtexpr", Call("clz32", <<CastE(U32, StmtExpr(<< Upd(X, 4) >>, X))>>)>>,
       <<"stmtexpr-of-call", StmtExpr(<< Upd(X, 4) >>, Call("clz32", <<CastE(U32, X)>>))>>,
       <<"sum-of-postfix-and-call", Bin("+", Postfix("++", X), CastE(S32, Call("clz32", <<CastE(U32, A)>>)))>>
    >>

StmtPos(c, pos) ==
    CASE pos = "seq"    -> << Upd(X, 1), c, Upd(X, 2) >>
      [] pos = "first"  -> << c, Upd(X, 2) >>
      [] pos = "last"   -> << Upd(X, 1), c >>
      [] pos = "then"   -> << Upd(X, 1), If(Bin("&", A, K(2)), << c, Upd(X, 3) >>), Upd(X, 2) >>
      [] pos = "else"   -> << IfElse(Bin("&", A, K(2)), << Upd(X, 1) >>, << Upd(X, 3), c >>), Upd(X, 2) >>
      [] pos = "loop"   -> << Loop(<< Upd(X, 1), c >>), Upd(X, 2) >>
      [] pos = "block"  -> << Block(<< Upd(X, 1), Block(<< c >>) >>), Upd(X, 2) >>
      [] pos = "stmtexpr" -> << Set(X, StmtExpr(<< Upd(X, 1), c >>, Bin("+", X, K(1)))), Upd(X, 2) >>
StmtPositions == <<"seq", "first", "last", "then", "else", "loop", "block", "stmtexpr">>

ExprPos(e, pos) ==
    CASE pos = "rhs"    -> << Upd(X, 1), Set(Var("a"), Bin("+", e, K(1))), Upd(X, 2) >>
      [] pos = "init"   -> << Upd(X, 1), Decl(S32, "z", e), Upd(X, 2), Set(Var("a"), Var("z")) >>
      [] pos = "cond"   -> << Upd(X, 1), If(e, << Upd(X, 3) >>), Upd(X, 2) >>
      [] pos = "arg"    -> << Upd(X, 1), Set(Var("a"), CastE(S32, Call("clz32", <<CastE(U32, e)>>))), Upd(X, 2) >>
      [] pos = "condarm" -> << Upd(X, 1), Set(Var("a"), Cond(Bin("&", A, K(1)), e, K(7))), Upd(X, 2) >>
      [] pos = "store"  -> << Upd(X, 1), Store(FALSE, 32, Bin("&", Rs, HexN(65532, "")), e), Upd(X, 2) >>
ExprPositions == <<"rhs", "init", "cond", "arg", "condarm", "store">>

StmtProgs == [i \in 1..(Len(StmtCons) * Len(StmtPositions)) |->
                LET c == StmtCons[((i - 1) \div Len(StmtPositions)) + 1]
                    pos == StmtPositions[((i - 1) % Len(StmtPositions)) + 1]
                IN  P("us-" \o c[1] \o "-" \o pos, StmtPos(c[2], pos), <<"unsupported-stmt", c[1], pos>>)]
ExprProgs == [i \in 1..(Len(ExprCons) * Len(ExprPositions)) |->
                LET c == ExprCons[((i - 1) \div Len(ExprPositions)) + 1]
                    pos == ExprPositions[((i - 1) % Len(ExprPositions)) + 1]
                IN  P("ue-" \o c[1] \o "-" \o pos, ExprPos(c[2], pos), <<"unsupported-expr", c[1], pos>>)]
SuppProgs == [i \in 1..(Len(SuppCons) * Len(StmtPositions)) |->
                LET c == SuppCons[((i - 1) \div Len(StmtPositions)) + 1]
                    pos == StmtPositions[((i - 1) % Len(StmtPositions)) + 1]
                IN  P("ss-" \o c[1] \o "-" \o pos, StmtPos(c[2], pos), <<"supported-stmt", c[1], pos>>)]
SuppExprProgs == [i \in 1..(Len(SuppExprCons) * Len(ExprPositions)) |->
                LET c == SuppExprCons[((i - 1) \div Len(ExprPositions)) + 1]
                    pos == ExprPositions[((i - 1) % Len(ExprPositions)) + 1]
                IN  P("se-" \o c[1] \o "-" \o pos, ExprPos(c[2], pos), <<"supported-expr", c[1], pos>>)]
Controls == << P("u0-control", << Upd(X, 1), Loop(<< Upd(X, 3) >>), Upd(X, 2) >>, <<"control">>) >>

Programs == StmtProgs \o ExprProgs \o SuppProgs \o SuppExprProgs \o Controls
VARIABLE x
Init == x = JsonSerialize(IOEnv.GEN_OUT, Programs)
Next == FALSE /\ x' = x
=============================================================================
