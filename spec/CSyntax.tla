------------------------------ MODULE CSyntax ------------------------------
(***************************************************************************)
(* Constructors of the dialect's syntax trees (the input language of CSem) *)
(* used by the Gen_* modules: every generated program handed to the real   *)
(* compiler is an element of a set defined in the specification.           *)
(***************************************************************************)
EXTENDS CTypes, Arch

None == [k |-> "none"]
Lit64(v, base, suffix) == [k |-> "num", v |-> v.l, base |-> base, suffix |-> suffix, sfx |-> suffix]
NumN(n) == Lit64(FromNat(64, n), "dec", "")          \* small decimal literal
HexN(n, suffix) == Lit64(FromNat(64, n), "hex", suffix)
Var(n) == [k |-> "var", n |-> n]
Reg(rt, acc, pair, new) == [k |-> "reg", kind |-> "isa", rt |-> rt, acc |-> acc, pair |-> pair, new |-> new]
XReg(rt, n, new) == [k |-> "reg", kind |-> "explicit", rt |-> rt, num |-> n, pair |-> FALSE, new |-> new]
Alias(a, new) == [k |-> "reg", kind |-> "alias", alias |-> a, new |-> new]
Imm(l) == [k |-> "imm", l |-> l]
Un(o, a) == [k |-> "un", o |-> o, a |-> a]
Bin(o, a, b) == [k |-> "bin", o |-> o, a |-> a, b |-> b]
Cond(c, a, b) == [k |-> "cond", c |-> c, a |-> a, b |-> b]
CastE(t, a) == [k |-> "cast", t |-> t, a |-> a]
Assign(l, o, r) == [k |-> "assign", o |-> o, l |-> l, r |-> r]
Postfix(o, a) == [k |-> "postfix", o |-> o, a |-> a]
Load(s, w, a) == [k |-> "load", s |-> s, w |-> w, a |-> a]
Call(f, args) == [k |-> "call", f |-> f, args |-> args]
StmtExpr(body, e) == [k |-> "stmtexpr", body |-> body, e |-> e]
SizeofE(a) == [k |-> "sizeof", a |-> a]

Decl(t, n, init) == [k |-> "decl", t |-> t, n |-> n, init |-> init]
ExprS(e) == [k |-> "expr", e |-> e]
Set(l, r) == ExprS(Assign(l, "=", r))
If(c, t) == [k |-> "if", c |-> c, t |-> t, e |-> <<>>, has_else |-> FALSE]
IfElse(c, t, e) == [k |-> "if", c |-> c, t |-> t, e |-> e, has_else |-> TRUE]
For(init, c, step, body) == [k |-> "for", init |-> init, c |-> c, step |-> step, body |-> body]
Block(b) == [k |-> "block", b |-> b]
Empty == [k |-> "empty"]
Store(s, w, a, v) == [k |-> "store", s |-> s, w |-> w, a |-> a, v |-> v]
Jump(a) == [k |-> "jump", a |-> a]
Return(e) == [k |-> "return", e |-> e]

Types8 == <<S8, U8, S16, U16, S32, U32, S64, U64>>
TName(t) == (IF t.s THEN "s" ELSE "u") \o ToString(t.w)

Rss == Reg("R", "s", TRUE, FALSE)
Rtt == Reg("R", "t", TRUE, FALSE)
Ruu == Reg("R", "u", TRUE, FALSE)
Rdd == Reg("R", "d", TRUE, FALSE)
Rs == Reg("R", "s", FALSE, FALSE)
Rt == Reg("R", "t", FALSE, FALSE)
Rd == Reg("R", "d", FALSE, FALSE)
Rx == Reg("R", "x", FALSE, FALSE)
Rxx == Reg("R", "x", TRUE, FALSE)

\* flatten a sequence of sequences
RECURSIVE Flatten(_)
Flatten(ss) == IF ss = <<>> THEN <<>> ELSE Head(ss) \o Flatten(Tail(ss))
=============================================================================
