------------------------------ MODULE ParsePool ------------------------------
(***************************************************************************)
(* C18: Parser.parse -- a pool of W worker processes parses N tasks        *)
(* (instruction name, list of behaviour parts) with imap (chunk size 1,    *)
(* results delivered in submission order) and the parent merges the        *)
(* delivered one-entry dictionaries into the result.                       *)
(*                                                                         *)
(* Actions mirror the code's steps one to one:                             *)
(*   Dispatch(w)   an idle worker takes the next task from the task queue  *)
(*   Finish(w)     parse_single returns: all trees, or (on any exception   *)
(*                 in any part) the exception's name and no trees          *)
(*   Yield         imap hands the next result in submission order to the   *)
(*                 parent, which does result.update(res)                   *)
(* The abstract outcome of a task is Seq(t), the value sequential parsing  *)
(* of the same behaviours gives: <<"ok", #parts>> or <<"err", part>>.      *)
(***************************************************************************)
EXTENDS Naturals, Sequences, FiniteSets, TLC

CONSTANTS N,          \* number of tasks
          MaxW        \* workers range over 1..MaxW

\* configuration, chosen in Init and never changed (so that one TLC run explores all of them)
VARIABLES W,          \* number of workers
          Parts,      \* task -> number of behaviour parts (1 or 2)
          FailAt      \* task -> 0 (parses) or index of the first part that fails
cfgvars == <<W, Parts, FailAt>>

Tasks == 1..N
Workers == 1..W
SeqOutcome(t) == IF FailAt[t] = 0 THEN <<"ok", Parts[t]>> ELSE <<"err", FailAt[t]>>

VARIABLES next,       \* next task index to hand out
          worker,     \* worker -> 0 (idle) or the task it runs
          done,       \* task -> outcome, for finished tasks
          yielded,    \* number of results delivered to the parent
          result      \* name(=task) -> outcome, the parent's dictionary
vars == <<next, worker, done, yielded, result, W, Parts, FailAt>>

Init == /\ W \in 1..MaxW
        /\ Parts \in [Tasks -> 1..2]
        /\ FailAt \in {f \in [Tasks -> 0..2] : \A t \in Tasks : f[t] <= Parts[t]}
        /\ next = 1
        /\ worker = [w \in Workers |-> 0]
        /\ done = <<>>
        /\ yielded = 0
        /\ result = <<>>

Dispatch(w) == /\ next <= N
               /\ worker[w] = 0
               /\ worker' = [worker EXCEPT ![w] = next]
               /\ next' = next + 1
               /\ UNCHANGED <<done, yielded, result, cfgvars>>

Finish(w) == /\ worker[w] # 0
             /\ done' = (worker[w] :> SeqOutcome(worker[w])) @@ done
             /\ worker' = [worker EXCEPT ![w] = 0]
             /\ UNCHANGED <<next, yielded, result, cfgvars>>

Yield == /\ yielded < N
         /\ (yielded + 1) \in DOMAIN done
         /\ result' = ((yielded + 1) :> done[yielded + 1]) @@ result
         /\ yielded' = yielded + 1
         /\ UNCHANGED <<next, worker, done, cfgvars>>

Next == (\E w \in Workers : Dispatch(w) \/ Finish(w)) \/ Yield
Spec == Init /\ [][Next]_vars /\ WF_vars(Next)

----------------------------------------------------------------------------
TypeOK == /\ next \in 1..(N + 1)
          /\ yielded \in 0..N
          /\ DOMAIN result = 1..yielded
OneTaskPerWorker == \A a, b \in Workers : (a # b /\ worker[a] # 0) => worker[a] # worker[b]
StartedOnce == \A t \in DOMAIN done : t < next /\ \A w \in Workers : worker[w] # t
Isolated == \A t \in DOMAIN done : done[t] = SeqOutcome(t)          \* a failing neighbour changes nothing
Equivalent == yielded = N => result = [t \in Tasks |-> SeqOutcome(t)]
InOrder == \A t \in DOMAIN result : result[t] = SeqOutcome(t)
Terminates == <>(yielded = N)
=============================================================================
