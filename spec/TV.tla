--------------------------------- MODULE TV ---------------------------------
(***************************************************************************)
(* Translation validation (DESIGN.md 3.5): for every observed compiler     *)
(* output (case) and every input state of the bounded family, the IL       *)
(* effect the compiler emitted must leave the architectural state (and the *)
(* declared C locals) exactly as the C source does.                        *)
(*                                                                         *)
(* TLC state = (case index c, input index k, verdict).  The work is done   *)
(* in Next so that all workers share it; the invariant is evaluated on the *)
(* successor state.  Observed artefacts and source trees come in through   *)
(* JSON (IOEnv.TV_FILE), produced from the real compiler by the harness.   *)
(***************************************************************************)
EXTENDS CSem, RzIL, Shapes, Json, IOUtils, TLCExt

Data == JsonDeserialize(IOEnv.TV_FILE)
Cases == Data.cases
ILSubs == Data.subs          \* observed bodies of sub-routines: name -> [params, body]
CSubs == Data.csubs          \* C source of sub-routines: name -> [params, ret, void, body]
Seed == atoi(IOEnv.TV_SEED)
NIn == atoi(IOEnv.TV_NINPUTS)
Fuel == 400
DevSets == Data.devsets      \* sequence of deviation sets to try after the strict oracle

VARIABLES c, k, verdict
vars == <<c, k, verdict>>

----------------------------------------------------------------------------
\* input states (A2)
NB == atoi(IOEnv.TV_NB)      \* number of boundary values used by this run (<= NBound)
NF1 == NB

RegIdx(cs, key) == CHOOSE i \in 1..Len(cs.regs) : RegKey(cs.regs[i]) = key
Keys(cs) == {RegKey(cs.regs[i]) : i \in 1..Len(cs.regs)}
SyncNew(r) == (r.kind = "isa" /\ r.acc \in {"x", "y", "z"}) \/ r.kind # "isa"

ValStd(w, kk, salt) ==
    IF kk <= NF1 THEN Bound(w, kk)
    ELSE IF kk <= 2 * NF1 THEN Bound(w, 1 + (H3(Seed, kk, salt) % NB))
    ELSE RandBV(w, H2(Seed, kk), salt)

\* exhaustive / pairwise families over the (up to two) "grid" operands cs.gk of a generated program
GridN == 256 * NB
PairN == NB * NB
WithLowByte(v, b) == Mk(v.w, [i \in 1..NL(v.w) |-> IF i = 1 THEN b ELSE v.l[i]])
GPos(cs, key) == IF \E i \in 1..Len(cs.gk) : cs.gk[i] = key THEN CHOOSE i \in 1..Len(cs.gk) : cs.gk[i] = key ELSE 0

ValIn(cs, kk, key, w, salt) ==
    LET g == GPos(cs, key)
        rnd == RandBV(w, H2(Seed, kk), salt)
    IN
    CASE cs.fam = "grid" /\ kk <= GridN ->
            (IF g = 1 THEN WithLowByte(rnd, (kk - 1) % 256)
             ELSE IF g = 2 THEN Bound(w, ((kk - 1) \div 256) + 1) ELSE ValStd(w, kk, salt))
      [] cs.fam = "grid" /\ kk <= 2 * GridN ->
            (IF g = 2 THEN WithLowByte(rnd, (kk - GridN - 1) % 256)
             ELSE IF g = 1 THEN Bound(w, ((kk - GridN - 1) \div 256) + 1) ELSE ValStd(w, kk, salt))
      [] cs.fam = "grid" /\ kk <= 2 * GridN + PairN ->
            (IF g = 1 THEN Bound(w, ((kk - 2 * GridN - 1) \div NB) + 1)
             ELSE IF g = 2 THEN Bound(w, ((kk - 2 * GridN - 1) % NB) + 1) ELSE ValStd(w, kk, salt))
      [] cs.fam = "grid" -> ValStd(w, kk - 2 * GridN - PairN, salt)
      [] cs.fam = "grid1" /\ kk <= GridN ->
            (IF g = 1 THEN WithLowByte(rnd, (kk - 1) % 256)
             ELSE IF g = 2 THEN Bound(w, ((kk - 1) \div 256) + 1) ELSE ValStd(w, kk, salt))
      [] cs.fam = "grid1" /\ kk <= GridN + PairN ->
            (IF g = 1 THEN Bound(w, ((kk - GridN - 1) \div NB) + 1)
             ELSE IF g = 2 THEN Bound(w, ((kk - GridN - 1) % NB) + 1) ELSE ValStd(w, kk, salt))
      [] cs.fam = "grid1" -> ValStd(w, kk - GridN - PairN, salt)
      [] cs.fam = "full8" /\ kk <= 65536 ->
            (IF g = 1 THEN WithLowByte(rnd, (kk - 1) % 256)
             ELSE IF g = 2 THEN WithLowByte(rnd, (kk - 1) \div 256) ELSE ValStd(w, kk, salt))
      [] cs.fam = "full8" -> ValStd(w, kk - 65536, salt)
      [] cs.fam = "pairs" /\ kk <= PairN ->
            (IF g = 1 THEN Bound(w, ((kk - 1) \div NB) + 1)
             ELSE IF g = 2 THEN Bound(w, ((kk - 1) % NB) + 1) ELSE ValStd(w, kk, salt))
      [] cs.fam = "pairs" -> ValStd(w, kk - PairN, salt)
      [] cs.fam = "low8" /\ kk <= 256 -> (IF g = 1 THEN WithLowByte(rnd, kk - 1) ELSE ValStd(w, kk, salt))
      [] cs.fam = "low8" -> ValStd(w, kk - 256, salt)
      [] cs.fam = "low5" /\ kk <= 32 -> (IF g = 1 THEN WithLowByte(rnd, kk - 1) ELSE ValStd(w, kk, salt))
      [] cs.fam = "low5" -> ValStd(w, kk - 32, salt)
      [] OTHER -> ValStd(w, kk, salt)

ValFor(w, kk, salt) == ValStd(w, kk, salt)

InputState(cs, kk, model, dev) ==
    LET keys == Keys(cs)
        wof(key) == RegType(cs.regs[RegIdx(cs, key)]).w
        old == [key \in keys |-> ValIn(cs, kk, key, wof(key), 2 * RegIdx(cs, key))]
        new == [key \in keys |->
                  IF SyncNew(cs.regs[RegIdx(cs, key)]) THEN old[key]
                  ELSE IF ReadsNew(cs.regs[RegIdx(cs, key)]) THEN ValIn(cs, kk, key, wof(key), 2 * RegIdx(cs, key))
                  ELSE ValStd(wof(key), kk + 1, 2 * RegIdx(cs, key) + 1)]
        imms == {cs.imms[i] : i \in 1..Len(cs.imms)}
    IN  [ old |-> old, new |-> new, wr |-> {},
          imm |-> [l \in imms |-> ValFor(32, kk, 100 + (CHOOSE i \in 1..Len(cs.imms) : cs.imms[i] = l))],
          pc |-> RandBV(32, H2(Seed, kk), 200),
          mem |-> <<>>, memseed |-> H2(Seed, kk), nstores |-> 0, nregw |-> 0,
          uf |-> [ rfwidth |-> FromNat(32, 1 + (H3(Seed, kk, 301) % 8)),
                   rfoffset |-> FromNat(32, H3(Seed, kk, 302) % 24),
                   cs |-> RandBV(32, H2(Seed, kk), 303),
                   npc |-> RandBV(32, H2(Seed, kk), 304) ],
          jump |-> [flag |-> B(FALSE), target |-> U("none")],
          cancel |-> FALSE,
          \* IL side
          loc |-> <<>>, lets |-> <<>>, stuck |-> "", model |-> model,
          \* C side
          vars |-> <<>>, csubs |-> CSubs, dev |-> dev, unspec |-> FALSE, why |-> "", diverged |-> FALSE,
          flow |-> "", retv |-> U("none"), rett |-> U64, depth |-> 0,
          fuel |-> Fuel ]

----------------------------------------------------------------------------
\* comparison
CVarsAgree(cs, cst, ist) ==
    \A i \in 1..Len(cs.cmpvars) :
        LET n == cs.cmpvars[i] IN
        (n \in DOMAIN cst.vars /\ ~IsPoison(cst.vars[n].v)) =>
            (n \in DOMAIN ist.loc /\ ist.loc[n] = cst.vars[n].v)

Agree(cs, cst, ist) ==
    /\ ist.stuck = ""
    /\ Visible(cst) = Visible(ist)
    /\ CVarsAgree(cs, cst, ist)

Diff(cs, cst, ist) ==
    [ stuck |-> ist.stuck,
      regs |-> {key \in (cst.wr \cup ist.wr) :
                   ~(key \in cst.wr /\ key \in ist.wr /\ cst.new[key] = ist.new[key])},
      mem |-> cst.mem # ist.mem,
      jump |-> cst.jump # ist.jump,
      cancel |-> cst.cancel # ist.cancel,
      vars |-> {cs.cmpvars[i] : i \in {j \in 1..Len(cs.cmpvars) :
                   LET n == cs.cmpvars[j] IN
                   (n \in DOMAIN cst.vars /\ ~IsPoison(cst.vars[n].v))
                   /\ ~(n \in DOMAIN ist.loc /\ ist.loc[n] = cst.vars[n].v)}},
      \* first differing local / register with both values (diagnostic)
      ex |-> LET bad == {j \in 1..Len(cs.cmpvars) :
                          LET n == cs.cmpvars[j] IN
                          (n \in DOMAIN cst.vars /\ ~IsPoison(cst.vars[n].v))
                          /\ ~(n \in DOMAIN ist.loc /\ ist.loc[n] = cst.vars[n].v)}
                 badr == {key \in (cst.wr \cap ist.wr) : cst.new[key] # ist.new[key]}
             IN  IF bad # {} THEN
                     LET n == cs.cmpvars[CHOOSE j \in bad : TRUE]
                     IN  [n |-> n, c |-> cst.vars[n].v, il |-> IF n \in DOMAIN ist.loc THEN ist.loc[n] ELSE U("unset")]
                 ELSE IF badr # {} THEN
                     LET key == CHOOSE x \in badr : TRUE IN [n |-> key, c |-> cst.new[key], il |-> ist.new[key]]
                 ELSE [n |-> "-"] ]

SubParamNames(cs) == {cs.src.params[i].n : i \in {j \in 1..Len(cs.src.params) : cs.src.params[j].kind = "val"}}
SubParamIdx(cs, n) == CHOOSE j \in 1..Len(cs.src.params) : cs.src.params[j].n = n
SubArg(cs, kk, n) == LET i == SubParamIdx(cs, n) IN ValStd(cs.src.params[i].t.w, kk, 400 + i)

\* the C source from input state s0 under deviation set dev
RunSrc(cs, s0, kk, dev) ==
    LET s1 == IF cs.src.kind = "sub"
              THEN [s0 EXCEPT !.vars = [n \in SubParamNames(cs) |->
                                          [t |-> cs.src.params[SubParamIdx(cs, n)].t, v |-> SubArg(cs, kk, n)]],
                              !.rett = cs.src.ret, !.dev = dev]
              ELSE [s0 EXCEPT !.dev = dev]
    IN  RunC(cs.src.body, s1)

\* the observed effect from input state s0 under plugin model `model'
RunObs(cs, o, s0, kk, model) ==
    LET body == IF cs.src.kind = "sub"
                THEN Subst(o.term, [n \in SubParamNames(cs) |->
                        [op |-> "BV", w |-> cs.src.params[SubParamIdx(cs, n)].t.w, v |-> SubArg(cs, kk, n).l, args |-> <<>>]])
                ELSE o.term
    IN  Run(body, [s0 EXCEPT !.model = model], ILSubs)

\* return value of a sub-routine: C retv (converted to the declared type) vs IL ret_val
RetAgree(cs, cst, ist) ==
    (cs.src.kind = "sub" /\ ~cs.src.void /\ cst.flow = "return") =>
        ("ret_val" \in DOMAIN ist.loc /\ IsBVv(ist.loc["ret_val"])
         /\ Cast(cs.src.ret.w, FALSE, ist.loc["ret_val"]) = cst.retv)

HasX(cs) == \E i \in 1..Len(cs.regs) : cs.regs[i].kind = "isa" /\ cs.regs[i].acc \in {"x", "y", "z"}

\* verdict of one observed artefact o of case cs on input kk
\* (s0: input state, ref: C result, ist: IL result under M_exec, ist1: IL result of the first layout)
ILSame(a, b) == a.stuck = b.stuck /\ Visible(a) = Visible(b) /\ a.loc = b.loc

\* first listed deviation set under which the C source explains the observed result (0: none).  A recursion, not a set
\* constructor: TLC caches lazily bound LET definitions only outside constructor / quantifier bodies, and the C run under a
\* deviation must be evaluated once, not once per use.
RECURSIVE FirstExpl(_, _, _, _, _)
FirstExpl(cs, s0, kk, ist, d) ==
    IF d > Len(DevSets) THEN 0
    ELSE LET dref == RunSrc(cs, s0, kk, {DevSets[d][j] : j \in 1..Len(DevSets[d])})
         \* explained: the deviant semantics reproduces the observed result -- or makes the program undefined on this input
         \* (the strict semantics is defined here, so the deviation is exercised: e.g. a zero-extended operand turns a
         \* shift count of 0 into 2^32 * k)
         IN  IF dref.unspec \/ (~dref.diverged /\ Agree(cs, dref, ist) /\ RetAgree(cs, dref, ist)) THEN d
             ELSE FirstExpl(cs, s0, kk, ist, d + 1)

CheckOne(cs, o, s0, ref, ist, ist1, kk) ==
    LET same == ILSame(ist, ist1) IN
    IF ref.unspec THEN [r |-> "unspec", why |-> ref.why, same |-> same]
    ELSE IF ref.diverged THEN [r |-> "diverged", same |-> same]
    ELSE
    IF Agree(cs, ref, ist) /\ RetAgree(cs, ref, ist) THEN [r |-> "agree", model |-> "exec", same |-> same]
    ELSE
    LET istb == RunObs(cs, o, s0, kk, "build")
    IN  IF HasX(cs) /\ Agree(cs, ref, istb) /\ RetAgree(cs, ref, istb) THEN [r |-> "agree", model |-> "build", same |-> same]
        ELSE
        LET d1 == FirstExpl(cs, s0, kk, ist, 1)
        IN  IF d1 # 0 THEN [r |-> "deviation", dev |-> DevSets[d1], same |-> same]
            ELSE [r |-> "mismatch", diff |-> Diff(cs, ref, ist), ret |-> RetAgree(cs, ref, ist),
                  shapes |-> ShapesOf(cs.src.body) \cup ShapesOfCase(cs.src.body, CSubs), same |-> same]

\* (No bound variable may enclose the evaluation: TLC does not cache lazily evaluated LET definitions /
\* operator arguments inside quantifier, set- or function-constructor bodies, so s0, ref and the IL
\* results would be recomputed at every use.  Cases have one or two observed artefacts.)
Check(ci, kk) ==
    LET cs == Cases[ci]
        s0 == InputState(cs, kk, "exec", {})
        ref == RunSrc(cs, s0, kk, {})
        ist1 == RunObs(cs, cs.obs[1], s0, kk, "exec")
    IN  IF Len(cs.obs) = 1 THEN << CheckOne(cs, cs.obs[1], s0, ref, ist1, ist1, kk) >>
        ELSE LET ist2 == RunObs(cs, cs.obs[2], s0, kk, "exec")
                 \* C16: both layouts report the same attribute set
                 metaSame == ("meta" \in DOMAIN cs.obs[1] /\ "meta" \in DOMAIN cs.obs[2]) =>
                                {cs.obs[1].meta[j] : j \in 1..Len(cs.obs[1].meta)} = {cs.obs[2].meta[j] : j \in 1..Len(cs.obs[2].meta)}
                 v2 == CheckOne(cs, cs.obs[2], s0, ref, ist2, ist1, kk)
             IN  << CheckOne(cs, cs.obs[1], s0, ref, ist1, ist1, kk), [v2 EXCEPT !.same = v2.same /\ metaSame] >>

\* One line per (case, input) on which some artefact does not simply agree.  The harness classifies
\* them (listed finding / violation); TLC's own INVARIANT is used only in replay mode, because
\* reporting thousands of invariant violations serialises the workers on TLC's trace printer.
Brief(v) == v
Report(ci, kk, v) ==
    IF \A i \in 1..Len(v) : v[i].r = "agree" /\ v[i].model = "exec" /\ v[i].same THEN TRUE
    ELSE PrintT("TVREPORT " \o ToJson([id |-> Cases[ci].id, k |-> kk, v |-> [i \in 1..Len(v) |-> Brief(v[i])]]))

Init == c \in 1..Len(Cases) /\ k \in 1..Cases[c].nin /\ verdict = <<>>
Next == /\ verdict = <<>>
        /\ LET v == Check(c, k) IN verdict' = v /\ Report(c, k, v)
        /\ UNCHANGED <<c, k>>
Spec == Init /\ [][Next]_vars

\* the property: no observed artefact disagrees with its source on any input of the family
NoMismatch == \A i \in 1..Len(verdict) : verdict[i].r # "mismatch"
LayoutsAgree == \A i \in 1..Len(verdict) : verdict[i].same
=============================================================================
