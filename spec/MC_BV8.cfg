INIT Init
NEXT Next
CONSTANT MaxW = 9
INVARIANT Holds
CHECK_DEADLOCK FALSE
