SPECIFICATION Spec
CONSTANTS N = 6
MaxW = 4
CHECK_DEADLOCK FALSE
