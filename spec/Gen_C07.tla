------------------------------ MODULE Gen_C07 ------------------------------
(***************************************************************************)
(* Input space of C07: the operand catalogue.  Every operand spelling the  *)
(* grammar admits -- register type letter x access letter(s) x single/pair *)
(* x V/N, explicitly numbered registers and pairs with/without _NEW,       *)
(* aliases with/without _NEW, the eight immediate letters, loads/stores of *)
(* every width and signedness, JUMP, the program counter alias -- in up to *)
(* three tiny programs: read into 64-bit observers, write from a 64-bit    *)
(* source, read-modify-write.  Width and signedness show in the sign/zero  *)
(* extension into the observers and the truncation from the source; the    *)
(* resource key and .new flag show because every bank has old # new.       *)
(***************************************************************************)
EXTENDS CSyntax, Json, IOUtils, SequencesExt

Tier == IOEnv.VERIF_TIER
RegTypes == <<"R", "C", "M", "N", "P", "Q", "V">>
Src == <<"s", "t", "u", "v", "w">>
Dst == <<"d", "e">>
SrcDst == <<"x", "y", "z">>
PairLetters == <<"s", "t", "u", "v", "d", "x", "y">>

Obs(e) == << Decl(S64, "r", e), Decl(U64, "q", e) >>
P(id, body, tags) == [id |-> id, body |-> body, tags |-> tags, fam |-> "std", gk |-> <<>>]
Src64 == Reg("R", "s", TRUE, FALSE)     \* RssV as the 64-bit source of writes (letter s is avoided below where it clashes)
SrcFor(acc) == IF acc = "s" THEN Reg("R", "t", TRUE, FALSE) ELSE Src64

IsaProgs ==
    LET singles == [i \in 1..(Len(RegTypes) * 10) |->
                       LET rt == RegTypes[((i - 1) \div 10) + 1]
                           acc == (Src \o Dst \o SrcDst)[((i - 1) % 10) + 1]
                       IN  <<rt, acc, FALSE>>]
        pairs == [i \in 1..(Len(RegTypes) * Len(PairLetters)) |->
                       LET rt == RegTypes[((i - 1) \div Len(PairLetters)) + 1]
                           acc == PairLetters[((i - 1) % Len(PairLetters)) + 1]
                       IN  <<rt, acc, TRUE>>]
        \* N operands (new-value producers) exist only as sources: other access letters are not catalogue entries
        all == SelectSeq(singles \o pairs, LAMBDA t : t[1] # "N" \/ t[2] \in {"s", "t", "u", "v", "w"})
        progs(t) ==
            LET rt == t[1] acc == t[2] pr == t[3]
                op == Reg(rt, acc, pr, FALSE)
                opn == Reg(rt, acc, pr, TRUE)
                nm == rt \o acc \o (IF pr THEN acc ELSE "")
                rd == << P("isa-rd-" \o nm, Obs(op), <<"isa", "read">>) >>
                rdn == << P("isa-rdnew-" \o nm, Obs(opn), <<"isa", "readnew">>) >>
                wr == IF acc \in {"d", "e", "x", "y", "z"}
                      THEN << P("isa-wr-" \o nm, << Set(op, SrcFor(acc)) >>, <<"isa", "write">>) >> ELSE <<>>
                rmw == IF acc \in {"x", "y", "z"}
                       THEN << P("isa-rmw-" \o nm, << Set(op, Bin("+", op, NumN(1))), Set(Reg("R", "d", TRUE, FALSE), op) >>, <<"isa", "rmw">>) >> ELSE <<>>
                rbw == IF acc \in {"d", "e"}     \* write-only destination that is read after the write
                       THEN << P("isa-rbw-" \o nm, << Set(op, SrcFor(acc)), Set(Reg("R", "x", TRUE, FALSE), op) >>, <<"isa", "readback">>) >> ELSE <<>>
            IN  rd \o rdn \o wr \o rmw \o rbw
    IN  Flatten([i \in 1..Len(all) |-> progs(all[i])])

XTypes == <<"R", "C", "P", "V", "Q", "M", "G", "S">>
XNums == <<0, 1, 2, 3, 4, 9, 10, 19, 29, 31>>
ExplicitProgs ==
    Flatten([i \in 1..(Len(XTypes) * Len(XNums)) |->
        LET rt == XTypes[((i - 1) \div Len(XNums)) + 1]
            n == XNums[((i - 1) % Len(XNums)) + 1]
            op == XReg(rt, n, FALSE)
            opn == XReg(rt, n, TRUE)
            nm == rt \o ToString(n)
        IN  << P("ex-rd-" \o nm, Obs(op), <<"explicit", "read">>),
               P("ex-rdnew-" \o nm, Obs(opn), <<"explicit", "readnew">>),
               P("ex-wr-" \o nm, << Set(op, Src64) >>, <<"explicit", "write">>),
               P("ex-rmw-" \o nm, << Set(op, Bin("+", op, NumN(1))) >>, <<"explicit", "rmw">>) >>])

XPair(rt, hi, lo, new) == [k |-> "reg", kind |-> "explicit", rt |-> rt, num |-> lo, num2 |-> hi, pair |-> TRUE, new |-> new]
ExplicitPairProgs ==
    << P("ex-rd-R1:0", Obs(XPair("R", 1, 0, FALSE)), <<"explicitpair", "read">>),
       P("ex-wr-R3:2", << Set(XPair("R", 3, 2, FALSE), Src64) >>, <<"explicitpair", "write">>),
       P("ex-rd-C1:0", Obs(XPair("C", 1, 0, FALSE)), <<"explicitpair", "read">>),
       P("ex-rdnew-R31:30", Obs(XPair("R", 31, 30, TRUE)), <<"explicitpair", "readnew">>),
       \* a pair in arithmetic (its 64-bit width must be known to the operators around it)
       P("ex-arith-R31:30", Obs(Bin("+", XPair("R", 31, 30, FALSE), NumN(1))), <<"explicitpair", "arith">>),
       P("ex-arith-C1:0", Obs(Bin(">>", XPair("C", 1, 0, FALSE), NumN(33))), <<"explicitpair", "arith">>),
       P("ex-cmp-R1:0", Obs(Bin("<", XPair("R", 1, 0, FALSE), Rss)), <<"explicitpair", "arith">>) >>

Aliases == <<"PC", "LR", "SA0", "LC0", "SA1", "LC1", "FP", "FRAMEKEY", "SP", "GP", "USR", "UPCYCLE", "PKTCOUNT", "UTIMER", "M0", "CS1", "P3_0", "UGP">>
AliasProgs ==
    Flatten([i \in 1..Len(Aliases) |->
        LET a == Aliases[i] IN
        << P("al-rd-" \o a, Obs(Alias(a, FALSE)), <<"alias", "read">>),
           \* the alias inside arithmetic and a comparison: the operators around it must know its width and signedness
           \* (a plain copy into a 64-bit local does not show a wrongly typed 64-bit alias)
           P("al-arith-" \o a, Obs(Bin("+", Alias(a, FALSE), NumN(1))), <<"alias", "arith">>),
           P("al-cmp-" \o a, Obs(Bin("<", Alias(a, FALSE), Rss)), <<"alias", "arith">>) >>
        \o (IF a = "PC" THEN <<>> ELSE     \* the program counter alias is read-only (a write emits an undeclared pc_op: noted finding)
            << P("al-rdnew-" \o a, Obs(Alias(a, TRUE)), <<"alias", "readnew">>),
               P("al-arithnew-" \o a, Obs(Bin("+", Alias(a, TRUE), NumN(1))), <<"alias", "arithnew">>),
               P("al-cmpnew-" \o a, Obs(Bin("<", Alias(a, TRUE), Rss)), <<"alias", "arithnew">>),
               P("al-wr-" \o a, << Set(Alias(a, FALSE), Src64) >>, <<"alias", "write">>),
               P("al-rmw-" \o a, << Set(Alias(a, FALSE), Bin("+", Alias(a, FALSE), NumN(1))) >>, <<"alias", "rmw">>) >>)])

ImmLetters == <<"r", "R", "s", "S", "u", "U", "m", "n">>
ImmProgs ==
    Flatten([i \in 1..Len(ImmLetters) |->
        << P("imm-" \o ToString(i) \o "-" \o ImmLetters[i], Obs(Imm(ImmLetters[i])), <<"imm">>),
           P("imm2-" \o ToString(i) \o "-" \o ImmLetters[i], << Set(Rd, Bin(">>", Imm(ImmLetters[i]), NumN(4))) >>, <<"imm", "shift">>) >>])

Widths == <<8, 16, 32, 64>>
MemProgs ==
    Flatten([i \in 1..8 |->
        LET sg == i <= 4
            w == Widths[((i - 1) % 4) + 1]
            ea == Set(Var("EA"), Bin("+", Rs, Imm("s")))
        IN  << P("ld-" \o (IF sg THEN "s" ELSE "u") \o ToString(w), << ea >> \o Obs(CastE(T(sg, w), Load(sg, w, Var("EA")))), <<"load">>),
               P("st-" \o (IF sg THEN "s" ELSE "u") \o ToString(w), << ea, Store(sg, w, Var("EA"), Rtt) >>, <<"store">>),
               P("stld-" \o (IF sg THEN "s" ELSE "u") \o ToString(w),
                 << ea, Store(sg, w, Var("EA"), Rtt), Set(Rdd, CastE(T(sg, w), Load(sg, w, Bin("+", Var("EA"), NumN(1))))) >>, <<"store", "load">>) >>])

JumpProgs ==
    << P("jmp-r", << Jump(Rs), Empty >>, <<"jump">>),
       P("jmp-rr", << Jump(Rss), Empty >>, <<"jump">>),
       P("jmp-pcrel", << Jump(Bin("+", Alias("PC", FALSE), Imm("r"))), Empty >>, <<"jump", "pc">>),
       P("jmp-cond", << If(Bin("&", Reg("P", "u", FALSE, FALSE), NumN(1)), << Jump(Rs), Empty >>) >>, <<"jump">>),
       P("nojmp", << Set(Rd, Rs) >>, <<"jump", "none">>),
       \* operands whose NAMES are not C identifiers (folded constants, explicit pairs) as jump target / address / data
       P("jmp-negconst", << Jump(Un("-", NumN(4))), Empty >>, <<"jump", "const">>),
       P("jmp-foldconst", << Jump(Bin("+", NumN(4), NumN(4))), Empty >>, <<"jump", "const">>),
       P("ld-negconst", Obs(CastE(T(TRUE, 32), Load(TRUE, 32, Un("-", NumN(4))))), <<"load", "const">>),
       P("ld-xpair", Obs(CastE(T(TRUE, 32), Load(TRUE, 32, XPair("R", 31, 30, FALSE)))), <<"load", "explicitpair">>),
       P("st-negconst", << Store(FALSE, 32, Rs, Un("-", NumN(4))) >>, <<"store", "const">>),
       P("ld-addr64", Obs(CastE(T(TRUE, 32), Load(TRUE, 32, Rss))), <<"load", "addr64">>),
       P("st-addr64", << Store(FALSE, 16, Rss, Rt) >>, <<"store", "addr64">>),
       P("ld-addr8", << Decl(U8, "a8", Rs) >> \o Obs(CastE(T(FALSE, 32), Load(FALSE, 8, Var("a8")))), <<"load", "addr8">>),
       P("ld-mulconst", Obs(CastE(T(TRUE, 32), Load(TRUE, 32, Bin("*", NumN(4), NumN(2))))), <<"load", "const">>),
       P("jmp-mulconst", << Jump(Bin("*", NumN(4), NumN(2))), Empty >>, <<"jump", "const">>),
       P("jmp-divconst", << Jump(Bin("/", NumN(64), NumN(4))), Empty >>, <<"jump", "const">>),
       P("st-shlconst", << Store(FALSE, 32, Bin("<<", NumN(1), NumN(4)), Rt) >>, <<"store", "const">>),
       P("st-addr-fold", << Store(FALSE, 32, Bin("+", NumN(16), NumN(4)), Rt) >>, <<"store", "const">>) >>

Programs == IsaProgs \o ExplicitProgs \o ExplicitPairProgs \o AliasProgs \o ImmProgs \o MemProgs \o JumpProgs

VARIABLE x
Init == x = JsonSerialize(IOEnv.GEN_OUT, Programs)
Next == FALSE /\ x' = x
=============================================================================
