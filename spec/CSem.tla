-------------------------------- MODULE CSem --------------------------------
(***************************************************************************)
(* Big-step semantics of the shortcode dialect of C (C11 integer semantics *)
(* with QEMU's conventions, LP64; DESIGN.md 5.1) over the machine state of *)
(* Arch.tla.  Syntax trees are records [k |-> kind, ...] produced by the   *)
(* independent dialect parser or by the Gen_* modules.                     *)
(*                                                                         *)
(*   EvalC(e, st)  -> [v, t, st]   value, C type, state after side effects *)
(*   ExecC(s, st)  -> st                                                   *)
(*   RunC(body, st)-> st           whole behaviour / sub-routine body      *)
(*                                                                         *)
(* Total: undefined behaviour sets st.unspec, exhausted fuel st.diverged.  *)
(* st.dev is the set of *named deviations* (DESIGN.md section 7) under     *)
(* which the oracle is evaluated; the strict oracle has st.dev = {}.       *)
(***************************************************************************)
EXTENDS CTypes, Arch, Macros

----------------------------------------------------------------------------
\* Operand catalogue (A3): resource key and C type of a register node
\*   [k |-> "reg", kind |-> "isa", rt |-> "R", acc |-> "s", pair |-> FALSE, new |-> FALSE]
\*   [k |-> "reg", kind |-> "explicit", rt |-> "P", num |-> 0, pair |-> FALSE, new |-> FALSE]
\*   [k |-> "reg", kind |-> "alias", alias |-> "USR", new |-> FALSE]
BaseWidth(rt) ==
    CASE rt \in {"R", "C", "M", "N", "G", "S"} -> 32
      [] rt = "P" -> 8
      [] rt = "Q" -> 128
      [] rt \in {"V", "O"} -> 1024
      [] OTHER -> 32

ClassOf(rt, pair) ==
    CASE rt \in {"R", "N"} -> IF pair THEN "HEX_REG_CLASS_DOUBLE_REGS" ELSE "HEX_REG_CLASS_INT_REGS"
      [] rt = "P" -> IF pair THEN "HEX_REG_CLASS_PRED_REGS64" ELSE "HEX_REG_CLASS_PRED_REGS"
      [] rt = "C" -> IF pair THEN "HEX_REG_CLASS_CTR_REGS64" ELSE "HEX_REG_CLASS_CTR_REGS"
      [] rt = "M" -> IF pair THEN "HEX_REG_CLASS_MOD_REGS64" ELSE "HEX_REG_CLASS_MOD_REGS"
      [] rt = "V" -> IF pair THEN "HEX_REG_CLASS_HVX_WR" ELSE "HEX_REG_CLASS_HVX_VR"
      [] rt = "Q" -> "HEX_REG_CLASS_HVX_QR"
      [] rt = "G" -> IF pair THEN "HEX_REG_CLASS_GUEST_REGS64" ELSE "HEX_REG_CLASS_GUEST_REGS"
      [] rt = "S" -> IF pair THEN "HEX_REG_CLASS_SYS_REGS64" ELSE "HEX_REG_CLASS_SYS_REGS"
      [] OTHER -> "?"

Wide64Alias == {"UPCYCLE", "PKTCOUNT", "UTIMER"}

RegKey(r) ==
    CASE r.kind = "isa" -> "op:" \o r.acc
      [] r.kind = "explicit" -> "ex:" \o ClassOf(r.rt, r.pair) \o ":" \o ToString(r.num)
      [] r.kind = "alias" -> "al:HEX_REG_ALIAS_" \o r.alias
      [] OTHER -> "??"

RegType(r) ==
    CASE r.kind = "alias" -> T(FALSE, IF r.alias \in Wide64Alias THEN 64 ELSE 32)
      [] OTHER -> T(TRUE, BaseWidth(r.rt) * (IF r.pair THEN 2 ELSE 1))

\* does a read of this operand before any write see the .new bank?  (A2)
\*   .new operands, and write-only destinations (d, e)
ReadsNew(r) == r.new \/ (r.kind = "isa" /\ r.acc \in {"d", "e"})

ImmType(letter) == T(letter \in {"r", "R", "s", "S"}, 32)

----------------------------------------------------------------------------
\* QEMU prototypes of the bit-field helpers (A7): parameter types, return type, IL macro
MacroSig(f) ==
    CASE f = "extract32"  -> [p |-> <<U32, S32, S32>>, r |-> U32, m |-> "EXTRACT32"]
      [] f = "extract64"  -> [p |-> <<U64, S32, S32>>, r |-> U64, m |-> "EXTRACT64"]
      [] f = "sextract64" -> [p |-> <<U64, S32, S32>>, r |-> S64, m |-> "SEXTRACT64"]
      [] f = "deposit32"  -> [p |-> <<U32, S32, S32, U32>>, r |-> U32, m |-> "DEPOSIT32"]
      [] f = "deposit64"  -> [p |-> <<U64, S32, S32, U64>>, r |-> U64, m |-> "DEPOSIT64"]
      [] f = "bswap16"    -> [p |-> <<U16>>, r |-> U16, m |-> "BSWAP16"]
      [] f = "bswap32"    -> [p |-> <<U32>>, r |-> U32, m |-> "BSWAP32"]
      [] f = "bswap64"    -> [p |-> <<U64>>, r |-> U64, m |-> "BSWAP64"]
BitMacros == {"extract32", "extract64", "sextract64", "deposit32", "deposit64", "bswap16", "bswap32", "bswap64"}

----------------------------------------------------------------------------
R(v, t, st) == [v |-> v, t |-> t, st |-> st]
Unspec(st, why) == [st EXCEPT !.unspec = TRUE, !.why = IF st.why = "" THEN why ELSE st.why]
Int01(b) == IF b THEN One(32) ELSE Zero(32)

\* named deviation: signed -> wider unsigned zero-extends (finding D3)
Conv(st, v, from, to) ==
    IF "CastBothSigned" \in st.dev THEN Cast(to.w, from.s /\ to.s /\ Msb(v), v)
    ELSE Convert(v, from, to)

SpecialIds == {"EA", "i", "j", "k"}

\* usual arithmetic conversion of v : from  to the operation type t, in the two steps the standard
\* describes (promotion, then conversion to the common type); the steps only differ under a deviation
Conv2(st, v, from, t) == Conv(st, Conv(st, v, from, Promote(from)), Promote(from), t)

\* type of c ? a : b.  Deviation NoPromoCond (not observable by itself, only together with
\* CastBothSigned): the compiler takes the common type of the un-promoted arm types.
CondType(st, ta, tb) == IF "NoPromoCond" \in st.dev THEN Common(ta, tb) ELSE Arith(ta, tb)

\* static type of an expression (needed for the arm of ?: that is not evaluated)
RECURSIVE TypeOfC(_, _)
TypeOfC(e, st) ==
    LET k == e.k IN
    CASE k = "num" -> LitType(Mk(64, e.v), e.base, e.suffix)
      [] k = "var" -> IF e.n \in DOMAIN st.vars THEN st.vars[e.n].t ELSE U32
      [] k = "reg" -> RegType(e)
      [] k = "imm" -> ImmType(e.l)
      [] k = "un" -> IF e.o = "!" THEN S32 ELSE Promote(TypeOfC(e.a, st))
      [] k = "bin" ->
            IF e.o \in {"<", ">", "<=", ">=", "==", "!=", "&&", "||"} THEN S32
            ELSE IF e.o \in {"<<", ">>"} THEN Promote(TypeOfC(e.a, st))
            ELSE Arith(TypeOfC(e.a, st), TypeOfC(e.b, st))
      [] k = "cond" -> CondType(st, TypeOfC(e.a, st), TypeOfC(e.b, st))
      [] k = "cast" -> e.t
      [] k = "assign" -> TypeOfC(e.l, st)
      [] k = "postfix" -> TypeOfC(e.a, st)
      [] k = "prefix" -> TypeOfC(e.a, st)
      [] k = "load" -> T(e.s, e.w)
      [] k = "sizeof" -> U64
      [] k = "call" ->
            IF e.f \in BitMacros THEN MacroSig(e.f).r
            ELSE IF e.f \in DOMAIN st.csubs THEN st.csubs[e.f].ret
            ELSE U32
      [] k = "stmtexpr" -> TypeOfC(e.e, st)
      [] k = "comma" -> TypeOfC(e.b, st)
      [] OTHER -> S32

----------------------------------------------------------------------------
ReadRegC(st, r) ==
    LET key == RegKey(r) IN
    IF r.kind = "alias" /\ r.alias = "PC" THEN st.pc
    ELSE IF ~HasReg(st, key) THEN U("noreg")
    ELSE IF key \in st.wr \/ ReadsNew(r) THEN st.new[key] ELSE st.old[key]

ArithOp(o, a, b) ==
    CASE o = "+" -> Add(a, b)
      [] o = "-" -> Sub(a, b)
      [] o = "*" -> Mul(a, b)
      [] o = "&" -> AndBV(a, b)
      [] o = "|" -> OrBV(a, b)
      [] o = "^" -> XorBV(a, b)

SMin(w) == ShlN(One(w), w - 1)

RECURSIVE EvalC(_, _)
RECURSIVE ExecC(_, _)
RECURSIVE ExecList(_, _, _)
RECURSIVE LoopC(_, _, _, _, _)
RECURSIVE EvalArgs(_, _, _, _)
RECURSIVE AssignTo(_, _, _, _)

\* store value v (already of the lvalue's type) into lvalue l
StoreLv(l, v, st) ==
    CASE l.k = "var" ->
            IF l.n \in DOMAIN st.vars
            THEN [st EXCEPT !.vars = (l.n :> [t |-> st.vars[l.n].t, v |-> v]) @@ st.vars]
            ELSE [st EXCEPT !.vars = (l.n :> [t |-> U32, v |-> v]) @@ st.vars]
      [] l.k = "reg" ->
            LET key == RegKey(l) IN IF HasReg(st, key) THEN WriteReg(st, key, v) ELSE Unspec(st, "noreg")
      [] l.k = "imm" -> [st EXCEPT !.imm = (l.l :> v) @@ st.imm]     \* the immediate is a C variable
      [] OTHER -> Unspec(st, "lvalue")

EvalArgs(args, i, st, acc) ==
    IF i > Len(args) THEN [vals |-> acc, st |-> st]
    ELSE LET r == EvalC(args[i], st) IN EvalArgs(args, i + 1, r.st, Append(acc, [v |-> r.v, t |-> r.t]))

EvalC(e, st) ==
    LET k == e.k IN
    CASE k = "num" ->
            LET v64 == Mk(64, e.v) t == LitType(v64, e.base, e.suffix)
                \* a decimal literal without U suffix that does not fit long long has no type (6.4.4.1p6)
                notype == e.base = "dec" /\ e.suffix \in {"", "LL"} /\ Msb(v64)
            IN  R(Cast(t.w, FALSE, v64), t, IF notype THEN Unspec(st, "literal without type") ELSE st)
      [] k = "var" ->
            IF e.n \in DOMAIN st.vars
            THEN LET x == st.vars[e.n]
                 IN  IF IsPoison(x.v) THEN R(Zero(x.t.w), x.t, Unspec(st, "uninit:" \o e.n)) ELSE R(x.v, x.t, st)
            ELSE R(Zero(32), U32, Unspec(st, "undeclared:" \o e.n))
      [] k = "reg" ->
            LET v == ReadRegC(st, e) t == RegType(e)
            IN  IF IsPoison(v) THEN R(Zero(t.w), t, Unspec(st, "noreg")) ELSE R(v, t, st)
      [] k = "imm" ->
            IF e.l \in DOMAIN st.imm THEN R(st.imm[e.l], ImmType(e.l), st)
            ELSE R(Zero(32), ImmType(e.l), Unspec(st, "noimm"))
      [] k = "cast" ->
            LET r == EvalC(e.a, st) IN R(Conv(r.st, r.v, r.t, e.t), e.t, r.st)
      [] k = "un" ->
            LET r == EvalC(e.a, st) IN
            IF e.o = "!" THEN R(Int01(IsZero(r.v)), S32, r.st)
            ELSE LET t == Promote(r.t) x == Conv(r.st, r.v, r.t, t)
                 IN  (CASE e.o = "-" -> R(Neg(x), t, r.st)
                        [] e.o = "~" -> R(NotBV(x), t, r.st)
                        [] e.o = "+" -> R(x, t, r.st))
      [] k = "bin" ->
            LET o == e.o IN
            IF o = "&&" THEN
                LET ra == EvalC(e.a, st) IN
                IF IsZero(ra.v) THEN R(Zero(32), S32, ra.st)
                ELSE LET rb == EvalC(e.b, ra.st) IN R(Int01(NonZero(rb.v)), S32, rb.st)
            ELSE IF o = "||" THEN
                LET ra == EvalC(e.a, st) IN
                IF NonZero(ra.v) THEN R(One(32), S32, ra.st)
                ELSE LET rb == EvalC(e.b, ra.st) IN R(Int01(NonZero(rb.v)), S32, rb.st)
            ELSE
            LET ra == EvalC(e.a, st)
                rb == EvalC(e.b, ra.st)
                s2 == rb.st
            IN
            IF o \in {"<<", ">>"} THEN
                \* deviation ShiftNoPromotion: the shift is computed in the un-promoted type of the left
                \* operand with RzIL semantics (count >= width gives all fill bits); what C leaves
                \* undefined is still decided by the promoted width
                LET t == IF "ShiftNoPromotion" \in s2.dev THEN ra.t ELSE Promote(ra.t)
                    x == Conv(s2, ra.v, ra.t, t)
                    tb == Promote(rb.t)
                    cnt == Conv(s2, rb.v, rb.t, tb)
                    bad == (tb.s /\ Msb(cnt)) \/ Count(cnt) >= Promote(ra.t).w
                IN  IF bad THEN R(Zero(t.w), t, Unspec(s2, "shiftcount"))
                    ELSE IF o = "<<" THEN R(ShlN(x, Count(cnt)), t, s2)
                    ELSE R(ShrN(x, Count(cnt), t.s /\ Msb(x)), t, s2)
            ELSE
            LET t == Arith(ra.t, rb.t)
                x == Conv2(s2, ra.v, ra.t, t)
                y == Conv2(s2, rb.v, rb.t, t)
                \* deviation CompareNoPromotion: comparisons are done in the common type of the
                \* un-promoted operand types
                tc == IF "CompareNoPromotion" \in s2.dev THEN Common(ra.t, rb.t) ELSE t
                xc == IF "CompareNoPromotion" \in s2.dev THEN Conv(s2, ra.v, ra.t, tc) ELSE x
                yc == IF "CompareNoPromotion" \in s2.dev THEN Conv(s2, rb.v, rb.t, tc) ELSE y
            IN
            (CASE o \in {"+", "-", "*", "&", "|", "^"} -> R(ArithOp(o, x, y), t, s2)
              [] o = "/" \/ o = "%" ->
                    IF IsZero(y) THEN R(Zero(t.w), t, Unspec(s2, "divzero"))
                    \* deviation SignedDivAsUnsigned: / and % of signed operands computed by unsigned DIV / MOD
                    ELSE IF ~t.s \/ "SignedDivAsUnsigned" \in s2.dev THEN R(IF o = "/" THEN UDiv(x, y) ELSE UMod(x, y), t, s2)
                    ELSE IF Eq(x, SMin(t.w)) /\ Eq(y, Ones(t.w)) THEN R(Zero(t.w), t, Unspec(s2, "divovf"))
                    ELSE LET ax == IF Msb(x) THEN Neg(x) ELSE x
                             ay == IF Msb(y) THEN Neg(y) ELSE y
                             q == UDiv(ax, ay)
                             m == UMod(ax, ay)
                         IN  IF o = "/" THEN R(IF Msb(x) # Msb(y) THEN Neg(q) ELSE q, t, s2)
                             ELSE R(IF Msb(x) THEN Neg(m) ELSE m, t, s2)
              [] o = "==" -> R(Int01(Eq(xc, yc)), S32, s2)
              [] o = "!=" -> R(Int01(~Eq(xc, yc)), S32, s2)
              [] o = "<" -> R(Int01(IF tc.s THEN Slt(xc, yc) ELSE Ult(xc, yc)), S32, s2)
              [] o = ">" -> R(Int01(IF tc.s THEN Slt(yc, xc) ELSE Ult(yc, xc)), S32, s2)
              [] o = "<=" -> R(Int01(IF tc.s THEN Sle(xc, yc) ELSE Ule(xc, yc)), S32, s2)
              [] o = ">=" -> R(Int01(IF tc.s THEN Sle(yc, xc) ELSE Ule(yc, xc)), S32, s2))
      [] k = "cond" ->
            LET rc == EvalC(e.c, st)
                t == CondType(st, TypeOfC(e.a, st), TypeOfC(e.b, st))
                cv(r) == IF "NoPromoCond" \in st.dev THEN Conv(r.st, r.v, r.t, t) ELSE Conv2(r.st, r.v, r.t, t)
            IN  IF NonZero(rc.v)
                THEN LET r == EvalC(e.a, rc.st) IN R(cv(r), t, r.st)
                ELSE LET r == EvalC(e.b, rc.st) IN R(cv(r), t, r.st)
      [] k = "assign" -> AssignTo(e.l, e.o, e.r, st)
      [] k = "postfix" ->
            LET r == EvalC(e.a, st)
                n == IF e.o = "++" THEN Add(r.v, One(r.t.w)) ELSE Sub(r.v, One(r.t.w))
            IN  R(r.v, r.t, StoreLv(e.a, n, r.st))
      [] k = "prefix" ->
            LET r == EvalC(e.a, st)
                n == IF e.o = "++" THEN Add(r.v, One(r.t.w)) ELSE Sub(r.v, One(r.t.w))
            IN  R(n, r.t, StoreLv(e.a, n, r.st))
      [] k = "load" ->
            LET r == EvalC(e.a, st) IN R(LoadBytes(r.st, r.v, e.w \div 8), T(e.s, e.w), r.st)
      [] k = "sizeof" -> R(FromNat(64, (TypeOfC(e.a, st).w + 7) \div 8), U64, st)
      [] k = "comma" -> LET ra == EvalC(e.a, st) IN EvalC(e.b, ra.st)
      [] k = "stmtexpr" -> LET s1 == ExecList(e.body, 1, st) IN EvalC(e.e, s1)
      [] k = "call" ->
            IF e.f \in BitMacros THEN
                LET sig == MacroSig(e.f)
                    ra == EvalArgs(e.args, 1, st, <<>>)
                IN  IF Len(e.args) # Len(sig.p) THEN R(Zero(sig.r.w), sig.r, Unspec(st, "arity"))
                    ELSE LET vals == [i \in 1..Len(sig.p) |-> Conv(ra.st, ra.vals[i].v, ra.vals[i].t, sig.p[i])]
                             v == MacroApply(sig.m, vals)
                         IN  IF IsPoison(v) THEN R(Zero(sig.r.w), sig.r, Unspec(ra.st, "macro:" \o v.u))
                             ELSE R(v, sig.r, ra.st)
            ELSE IF e.f = "REGFIELD" THEN
                R(IF e.args[1].n = "HEX_RF_WIDTH" THEN st.uf.rfwidth ELSE st.uf.rfoffset, U32, st)
            ELSE IF e.f = "get_corresponding_CS" THEN R(st.uf.cs, S32, st)
            ELSE IF e.f = "get_npc" THEN R(st.uf.npc, U32, st)
            ELSE IF e.f = "fatal" THEN R(Zero(32), U32, st)
            ELSE IF e.f = "STORE_SLOT_CANCELLED" THEN R(Zero(32), U32, [st EXCEPT !.cancel = TRUE])
            ELSE IF e.f \notin DOMAIN st.csubs THEN R(Zero(32), U32, Unspec(st, "nofunc:" \o e.f))
            ELSE
                LET sr == st.csubs[e.f]
                    \* value parameters are those with an integer type; others are passed through
                    isval(i) == sr.params[i].kind = "val"
                    vidx == {i \in 1..Len(sr.params) : isval(i)}
                    ra == EvalArgs([i \in 1..Len(e.args) |->
                                       IF i \in vidx THEN e.args[i] ELSE [k |-> "num", v |-> Zero(64).l, base |-> "dec", suffix |-> ""]],
                                   1, st, <<>>)
                    s1 == ra.st
                    newvars == [n \in {sr.params[i].n : i \in vidx} |->
                                   LET i == CHOOSE j \in vidx : sr.params[j].n = n
                                   IN  [t |-> sr.params[i].t, v |-> Conv(s1, ra.vals[i].v, ra.vals[i].t, sr.params[i].t)]]
                    s2 == [s1 EXCEPT !.vars = newvars, !.flow = "", !.depth = s1.depth + 1, !.rett = sr.ret]
                    s3 == IF s1.depth >= 8 THEN [s2 EXCEPT !.diverged = TRUE] ELSE ExecList(sr.body, 1, s2)
                    rv == IF sr.void THEN Zero(32)
                          ELSE IF s3.flow = "return" THEN s3.retv ELSE U("noreturn")
                    back == [s3 EXCEPT !.vars = s1.vars, !.flow = "", !.depth = s1.depth, !.rett = s1.rett]
                IN  IF Len(e.args) # Len(sr.params) THEN R(Zero(32), U32, Unspec(st, "arity"))
                    ELSE IF IsPoison(rv) THEN R(Zero(sr.ret.w), sr.ret, Unspec(back, "noreturn"))
                    ELSE R(rv, IF sr.void THEN U32 ELSE sr.ret, back)
      [] OTHER -> R(Zero(32), S32, Unspec(st, "expr:" \o k))

\* l o= r   (o is "=" or a compound operator)
AssignTo(l, o, r, st) ==
    LET lt == TypeOfC(l, st) IN
    IF o = "=" THEN
        LET rr == EvalC(r, st)
            v == Conv(rr.st, rr.v, rr.t, lt)
        IN  R(v, lt, StoreLv(l, v, rr.st))
    ELSE
        LET bop == CASE o = "+=" -> "+" [] o = "-=" -> "-" [] o = "*=" -> "*" [] o = "/=" -> "/"
                     [] o = "%=" -> "%" [] o = "&=" -> "&" [] o = "|=" -> "|" [] o = "^=" -> "^"
                     [] o = "<<=" -> "<<" [] o = ">>=" -> ">>"
            \* deviation CompoundRhsToDestFirst: the right operand is converted to the target type before
            \* the operation (shifts excepted), instead of taking part in the usual arithmetic conversions
            r2 == IF "CompoundRhsToDestFirst" \in st.dev /\ bop \notin {"<<", ">>"} THEN [k |-> "cast", t |-> lt, a |-> r] ELSE r
            rr == EvalC([k |-> "bin", o |-> bop, a |-> l, b |-> r2], st)
            v == Conv(rr.st, rr.v, rr.t, lt)
        IN  R(v, lt, StoreLv(l, v, rr.st))

LoopC(c, step, body, st, first) ==
    IF st.flow = "return" \/ st.diverged THEN st
    ELSE LET rc == IF c.k = "none" THEN R(One(32), S32, st) ELSE EvalC(c, st) IN
         IF IsZero(rc.v) THEN rc.st
         ELSE IF rc.st.fuel = 0 THEN [rc.st EXCEPT !.diverged = TRUE]
         ELSE LET s1 == ExecList(body, 1, [rc.st EXCEPT !.fuel = rc.st.fuel - 1])
              IN  IF s1.flow = "break" THEN [s1 EXCEPT !.flow = ""]
                  ELSE IF s1.flow = "return" THEN s1
                  ELSE LET s2 == [s1 EXCEPT !.flow = ""]
                           s3 == IF step.k = "none" THEN s2 ELSE EvalC(step, s2).st
                       IN  LoopC(c, step, body, s3, FALSE)

ExecList(ss, i, st) ==
    IF i > Len(ss) \/ st.flow # "" \/ st.diverged THEN st ELSE ExecList(ss, i + 1, ExecC(ss[i], st))

ExecC(s, st) ==
    LET k == s.k IN
    CASE k = "decl" ->
            IF s.init.k = "none"
            THEN [st EXCEPT !.vars = (s.n :> [t |-> s.t, v |-> U("uninit")]) @@ st.vars]
            ELSE LET r == EvalC(s.init, st)
                 IN  [r.st EXCEPT !.vars = (s.n :> [t |-> s.t, v |-> Conv(r.st, r.v, r.t, s.t)]) @@ r.st.vars]
      [] k = "expr" -> EvalC(s.e, st).st
      [] k = "empty" -> st
      [] k = "nop" -> st
      [] k = "cancel" -> st
      [] k = "block" -> ExecList(s.b, 1, st)
      [] k = "if" ->
            LET rc == EvalC(s.c, st)
            IN  IF NonZero(rc.v) THEN ExecList(s.t, 1, rc.st) ELSE ExecList(s.e, 1, rc.st)
      [] k = "for" ->
            LET s0 == IF s.init.k = "none" THEN st ELSE ExecC(s.init, st)
            IN  LoopC(s.c, s.step, s.body, s0, TRUE)
      [] k = "while" -> LoopC(s.c, [k |-> "none"], s.body, st, TRUE)
      [] k = "do" ->
            LET s1 == ExecList(s.body, 1, st)
            IN  IF s1.flow = "break" THEN [s1 EXCEPT !.flow = ""]
                ELSE IF s1.flow = "return" THEN s1
                ELSE LoopC(s.c, [k |-> "none"], s.body, [s1 EXCEPT !.flow = ""], FALSE)
      [] k = "break" -> [st EXCEPT !.flow = "break"]
      [] k = "continue" -> [st EXCEPT !.flow = "continue"]
      [] k = "return" ->
            IF s.e.k = "none" THEN [st EXCEPT !.flow = "return"]
            ELSE LET r == EvalC(s.e, st)
                     \* deviation ReturnViaU64 (not observable by itself, only together with CastBothSigned):
                     \* the returned value is first widened to an unsigned 64-bit carrier
                     v64 == IF "ReturnViaU64" \in r.st.dev THEN Conv(r.st, r.v, r.t, U64) ELSE r.v
                     t64 == IF "ReturnViaU64" \in r.st.dev THEN U64 ELSE r.t
                 IN  [r.st EXCEPT !.flow = "return", !.retv = Conv(r.st, v64, t64, r.st.rett)]
      [] k = "store" ->
            LET ra == EvalC(s.a, st)
                rv == EvalC(s.v, ra.st)
                t == T(s.s, s.w)
            IN  StoreBytes(rv.st, ra.v, Conv(rv.st, rv.v, rv.t, t))
      [] k = "jump" ->
            LET r == EvalC(s.a, st)
            IN  [r.st EXCEPT !.jump = [flag |-> B(TRUE), target |-> Conv(r.st, r.v, r.t, U32)]]
      [] OTHER -> Unspec(st, "stmt:" \o k)

RunC(body, st) == ExecList(body, 1, st)

----------------------------------------------------------------------------
(* The supported dialect (C01: "behaviours that stay within the supported   *)
(* dialect are accepted").  InDialect(body, st) holds iff every construct   *)
(* of the tree is one this module gives a meaning to AND is documented as   *)
(* supported: fixed-width integer types, int / unsigned, the operators of   *)
(* C02, if/else, for, declarations, loads/stores, JUMP, calls of registered *)
(* sub-routines and of the bit-field helpers.  while/do/switch/break/...    *)
(* have a meaning here (C15 uses it) but are outside the supported dialect. *)
TypeNames == {"int8_t", "uint8_t", "int16_t", "uint16_t", "int32_t", "uint32_t", "int64_t", "uint64_t",
              "size1s_t", "size1u_t", "size2s_t", "size2u_t", "size4s_t", "size4u_t", "size8s_t", "size8u_t",
              "int", "unsigned", "unsigned int"}
\* (types written by the Gen_* modules carry no spelling: they are the fixed-width types by construction)
TypeOk(t) == ("name" \notin DOMAIN t \/ t.name \in TypeNames) /\ t.w \in {8, 16, 32, 64} /\ "ptr" \notin DOMAIN t /\ "nonint" \notin DOMAIN t
KnownCalls(st) == BitMacros \cup DOMAIN st.csubs \cup {"REGFIELD", "get_corresponding_CS", "get_npc", "fatal", "STORE_SLOT_CANCELLED"}
UnOpsOk == {"-", "~", "!", "+"}
BinOpsOk == {"+", "-", "*", "/", "%", "&", "|", "^", "<<", ">>", "<", ">", "<=", ">=", "==", "!=", "&&", "||"}
AssignOpsOk == {"=", "+=", "-=", "*=", "/=", "%=", "&=", "|=", "^=", "<<=", ">>="}

RECURSIVE ExprOk(_, _)
RECURSIVE StmtOk(_, _)
AllExprOk(es, st) == \A i \in 1..Len(es) : ExprOk(es[i], st)
AllStmtOk(ss, st) == \A i \in 1..Len(ss) : StmtOk(ss[i], st)
IsLvalue(e) == e.k \in {"var", "reg", "imm"}

ExprOk(e, st) ==
    LET k == e.k IN
    CASE k = "num" -> e.suffix \in {"", "U", "LL", "ULL"}
      [] k = "var" -> TRUE
      [] k = "reg" -> e.kind \in {"isa", "explicit", "alias"}
      [] k = "imm" -> TRUE
      [] k = "un" -> e.o \in UnOpsOk /\ ExprOk(e.a, st)
      [] k = "bin" -> e.o \in BinOpsOk /\ ExprOk(e.a, st) /\ ExprOk(e.b, st)
      [] k = "cond" -> ExprOk(e.c, st) /\ ExprOk(e.a, st) /\ ExprOk(e.b, st)
      [] k = "cast" -> TypeOk(e.t) /\ ExprOk(e.a, st)
      [] k = "assign" -> e.o \in AssignOpsOk /\ IsLvalue(e.l) /\ ExprOk(e.l, st) /\ ExprOk(e.r, st)
      [] k = "postfix" -> e.o \in {"++", "--"} /\ IsLvalue(e.a)
      [] k = "load" -> e.w \in {8, 16, 32, 64} /\ ExprOk(e.a, st)
      [] k = "sizeof" -> ExprOk(e.a, st)
      [] k = "stmtexpr" -> AllStmtOk(e.body, st) /\ ExprOk(e.e, st)
      [] k = "call" -> e.f \in KnownCalls(st) /\ \A i \in 1..Len(e.args) : (e.args[i].k = "str" \/ ExprOk(e.args[i], st))
      [] k = "comma" -> st.ext /\ ExprOk(e.a, st) /\ ExprOk(e.b, st)
      [] k = "prefix" -> st.ext /\ e.o \in {"++", "--"} /\ IsLvalue(e.a)
      [] OTHER -> FALSE

StmtOk(s, st) ==
    LET k == s.k IN
    CASE k = "decl" -> TypeOk(s.t) /\ (s.init.k = "none" \/ ExprOk(s.init, st))
      [] k = "expr" -> ExprOk(s.e, st)
      [] k \in {"empty", "nop", "cancel"} -> TRUE
      [] k = "block" -> AllStmtOk(s.b, st)
      [] k = "if" -> ExprOk(s.c, st) /\ AllStmtOk(s.t, st) /\ AllStmtOk(s.e, st)
      [] k = "for" -> (s.init.k = "none" \/ StmtOk(s.init, st)) /\ (s.c.k = "none" \/ ExprOk(s.c, st))
                      /\ (s.step.k = "none" \/ ExprOk(s.step, st)) /\ AllStmtOk(s.body, st)
      [] k = "return" -> s.e.k = "none" \/ ExprOk(s.e, st)
      [] k = "store" -> s.w \in {8, 16, 32, 64} /\ ExprOk(s.a, st) /\ ExprOk(s.v, st)
      [] k = "jump" -> ExprOk(s.a, st)
      [] k \in {"while", "do"} -> st.ext /\ ExprOk(s.c, st) /\ AllStmtOk(s.body, st)
      [] k \in {"break", "continue"} -> st.ext
      [] OTHER -> FALSE

InDialect(body, st) == AllStmtOk(body, [st EXCEPT !.ext = FALSE])
\* constructs this module can execute although the compiler does not translate them (C15: if the compiler
\* returns code for such a program the code must still be right; for anything else returning code is wrong)
HasMeaning(body, st) == AllStmtOk(body, [st EXCEPT !.ext = TRUE])
=============================================================================
