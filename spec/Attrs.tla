-------------------------------- MODULE Attrs --------------------------------
(***************************************************************************)
(* C13: the attribute set of an instruction part as a function of the      *)
(* part's own syntax tree.                                                 *)
(*   COND       iff the part contains an if statement                      *)
(*   NEW        iff it mentions a .new operand (N operand, _NEW register)  *)
(*   MEM_READ   iff it contains a memory load, MEM_WRITE iff a store       *)
(*   BRANCH     iff it contains a JUMP                                     *)
(*   WPRED      iff it assigns a predicate register; WRITE_Pn for exactly  *)
(*              the explicitly numbered predicates (0..3) it assigns       *)
(*   NONE       iff none of the above                                      *)
(***************************************************************************)
EXTENDS Shapes, TLC

IsPredReg(e) == e.k = "reg" /\ e.kind \in {"isa", "explicit"} /\ e.rt = "P"

Attr(body) ==
    LET stmts == SeqStmts(body)
        exprs == SeqNodes(body)
        assigns == {n \in exprs : n.k = "assign" /\ IsPredReg(n.l)}
        nums == {n.l.num : n \in {m \in assigns : m.l.kind = "explicit" /\ m.l.num \in 0..3}}
        a == (IF \E s \in stmts : s.k = "if" THEN {"HEX_IL_INSN_ATTR_COND"} ELSE {})
             \cup (IF \E n \in exprs : n.k = "reg" /\ n.new THEN {"HEX_IL_INSN_ATTR_NEW"} ELSE {})
             \cup (IF \E s \in stmts : s.k = "store" THEN {"HEX_IL_INSN_ATTR_MEM_WRITE"} ELSE {})
             \cup (IF \E n \in exprs : n.k = "load" THEN {"HEX_IL_INSN_ATTR_MEM_READ"} ELSE {})
             \cup (IF \E s \in stmts : s.k = "jump" THEN {"HEX_IL_INSN_ATTR_BRANCH"} ELSE {})
             \cup (IF assigns # {} THEN {"HEX_IL_INSN_ATTR_WPRED"} ELSE {})
             \cup {"HEX_IL_INSN_ATTR_WRITE_P" \o ToString(n) : n \in nums}
    IN  IF a = {} THEN {"HEX_IL_INSN_ATTR_NONE"} ELSE a

\* verdict for a reported list (a sequence of strings): set equality, no duplicates
AttrVerdict(body, noped, reported) ==
    LET exp == IF noped THEN {"HEX_IL_INSN_ATTR_NONE"} ELSE Attr(body)
        rep == {reported[i] : i \in 1..Len(reported)}
    IN  IF Cardinality(rep) # Len(reported) THEN "duplicate attribute in the reported list"
        ELSE IF rep \ exp # {} THEN "reported but not implied by the text: " \o (CHOOSE x \in rep \ exp : TRUE)
        ELSE IF exp \ rep # {} THEN "implied by the text but not reported: " \o (CHOOSE x \in exp \ rep : TRUE)
        ELSE ""
=============================================================================
