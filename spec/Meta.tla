-------------------------------- MODULE Meta --------------------------------
(* C11, companion record: one getter name / declaration per part, the        *)
(* declaration is the documented prototype of that name, names are valid C   *)
(* identifiers and unique over all instructions.                             *)
EXTENDS Naturals, Sequences, FiniteSets, TLC, Json, IOUtils
Insns == JsonDeserialize(IOEnv.TV_FILE).insns   \* [name, nparts, getters, decls, valid]
AllNames == [i \in 1..Len(Insns) |-> Insns[i].getters]
RECURSIVE FlatLen(_, _)
FlatLen(ss, i) == IF i > Len(ss) THEN 0 ELSE Len(ss[i]) + FlatLen(ss, i + 1)
NameSet == UNION {{Insns[i].getters[j] : j \in 1..Len(Insns[i].getters)} : i \in 1..Len(Insns)}
Proto(n) == "RzILOpEffect *" \o n \o "(HexInsnPktBundle *bundle)"
PerInsn(i) ==
    LET r == Insns[i] IN
    IF Len(r.getters) # r.nparts \/ Len(r.decls) # r.nparts THEN "number of getters differs from the number of parts"
    ELSE IF \E j \in 1..r.nparts : r.decls[j] # Proto(r.getters[j]) THEN "declaration is not the prototype of the getter name"
    ELSE IF ~r.valid THEN "getter name is not a C identifier"
    ELSE ""
Bad == {i \in 1..Len(Insns) : PerInsn(i) # ""}
VARIABLE x
Init == x = 0
Next == /\ x = 0 /\ x' = 1
        /\ \A i \in Bad : PrintT("MTREPORT " \o ToJson([name |-> Insns[i].name, v |-> PerInsn(i)]))
        /\ (Cardinality(NameSet) = FlatLen(AllNames, 1) \/ PrintT("MTREPORT " \o ToJson([name |-> "*", v |-> "getter names are not unique"])))
Spec == Init /\ [][Next]_x
=============================================================================
