------------------------------ MODULE Gen_C06 ------------------------------
(***************************************************************************)
(* Input space of C06: operations that yield a value AND change state --   *)
(* postfix ++/-- on locals and registers, calls of bundled and generated   *)
(* sub-routines (result used or not), GCC statement-expressions -- placed  *)
(* in initialisers, right-hand sides, conditions of if / ?: / for, loop    *)
(* steps, call arguments, arms of ?:, and as expression statements.  The   *)
(* object a hybrid modifies is also updated by non-commuting statements    *)
(* before and after (x = x*3+k), so "exactly once" and "in order" show in  *)
(* the final values.  Programs with two modifications of one object in one *)
(* expression (unsequenced in C) are not generated.                        *)
(***************************************************************************)
EXTENDS CSyntax, Json, IOUtils, SequencesExt

Seed == atoi(IOEnv.VERIF_SEED)
Tier == IOEnv.VERIF_TIER
X == Var("x")  Y == Var("y")  A == Var("a")  N == Var("n")  I == Var("i")
K(n) == NumN(n)
Upd(v, k) == Set(v, Bin("+", Bin("*", v, K(3)), K(k)))

\* generated sub-routines with a visible effect through a by-value result only (callee isolation is C08)
Subs == << [name |-> "hinc", void |-> FALSE, ret |-> S32, params |-> << [n |-> "p", t |-> S32] >>,
            body |-> << Return(Bin("+", Var("p"), K(1))) >>],
           [name |-> "hsel", void |-> FALSE, ret |-> U32, params |-> << [n |-> "p", t |-> U32], [n |-> "q", t |-> U32] >>,
            body |-> << IfElse(Bin("<", Var("p"), Var("q")), << Return(Var("q")) >>, << Return(Var("p")) >>) >>] >>

\* hybrids: [e |-> expression, mod |-> name of the local it modifies or ""]
Hybrids ==
    << [e |-> Postfix("++", X), mod |-> "x", tag |-> "postinc"],
       [e |-> Postfix("--", X), mod |-> "x", tag |-> "postdec"],
       [e |-> Postfix("++", Rx), mod |-> "Rx", tag |-> "postinc-reg"],
       [e |-> Call("clz32", <<CastE(U32, A)>>), mod |-> "", tag |-> "call"],
       [e |-> Call("hinc", <<A>>), mod |-> "", tag |-> "gencall"],
       [e |-> Call("fbrev", <<CastE(U32, A)>>), mod |-> "", tag |-> "nestedcall"],
       [e |-> Call("hsel", <<CastE(U32, A), CastE(U32, X)>>), mod |-> "", tag |-> "gencall2"],
       [e |-> StmtExpr(<< Upd(X, 4) >>, X), mod |-> "x", tag |-> "stmtexpr"],
       [e |-> StmtExpr(<< Decl(S32, "t", Bin("+", A, K(1))), Upd(X, 6) >>, Bin("+", Var("t"), X)), mod |-> "x", tag |-> "stmtexpr-decl"] >>
NH == Len(Hybrids)

Prologue == << Decl(S32, "a", Rs), Decl(S32, "x", Rt), Decl(S32, "y", K(0)), Decl(U32, "n", Bin("&", Rt, K(3))) >>
Epilogue == << Set(Rd, Bin("+", X, Y)) >>
P(id, stmts, tags) == [id |-> id, body |-> Prologue \o stmts \o Epilogue, tags |-> tags, fam |-> "low5", gk |-> <<"op:t">>]

Place(pos, h) ==
    LET e == h.e IN
    CASE pos = "init"    -> << Upd(X, 1), Decl(S32, "z", e), Upd(X, 2), Set(Y, Var("z")) >>
      [] pos = "rhs"     -> << Upd(X, 1), Set(Y, Bin("+", e, K(1))), Upd(X, 2) >>
      [] pos = "ifcond"  -> << Upd(X, 1), IfElse(Bin(">", e, K(2)), << Upd(Y, 1) >>, << Upd(Y, 2) >>), Upd(X, 2) >>
      [] pos = "condc"   -> << Upd(X, 1), Set(Y, Cond(Bin(">", e, K(2)), A, K(7))), Upd(X, 2) >>
      [] pos = "condarm" -> << Upd(X, 1), Set(Y, Cond(Bin("&", A, K(1)), e, K(7))), Upd(X, 2) >>
      [] pos = "condarm2" -> << Upd(X, 1), Set(Y, Cond(Bin("&", A, K(1)), K(7), e)), Upd(X, 2) >>
      [] pos = "arg"     -> << Upd(X, 1), Set(Y, Call("hinc", <<e>>)), Upd(X, 2) >>
      [] pos = "stmt"    -> << Upd(X, 1), ExprS(e), Upd(X, 2) >>
      [] pos = "stmtfirst" -> << ExprS(e), Upd(X, 2) >>
      [] pos = "loopbody" -> << For(Set(I, K(0)), Bin("<", I, N), Postfix("++", I), << Set(Y, Bin("+", Y, e)), Upd(X, 1) >>) >>
      [] pos = "loopcond" -> << For(Set(I, K(0)), Bin("<", Bin("+", I, Bin("&", e, K(0))), N), Postfix("++", I), << Upd(Y, 1) >>) >>
      [] pos = "store"   -> << Upd(X, 1), Store(FALSE, 32, Bin("&", Rs, HexN(65532, "")), e), Upd(X, 2) >>
      [] pos = "andrhs"  -> << Upd(X, 1), IfElse(Bin("&&", Bin("&", A, K(1)), Bin(">", e, K(2))), << Upd(Y, 1) >>, << Upd(Y, 2) >>), Upd(X, 2) >>
Positions == <<"init", "rhs", "ifcond", "condc", "condarm", "condarm2", "arg", "stmt", "stmtfirst", "loopbody", "loopcond", "store", "andrhs">>

Singles ==
    [i \in 1..(Len(Positions) * NH) |->
        LET pos == Positions[((i - 1) \div NH) + 1]
            h == Hybrids[((i - 1) % NH) + 1]
        IN  P("h1-" \o pos \o "-" \o h.tag, Place(pos, h), <<"hybrid", pos, h.tag>>)]

\* two hybrids on different objects in one statement / consecutive statements
Doubles ==
    [i \in 1..(IF Tier = "thorough" THEN 200 ELSE 40) |->
        LET h1 == Hybrids[(H3(Seed, i, 1) % NH) + 1]
            cands == SelectSeq(Hybrids, LAMBDA h : h.mod = "" \/ h.mod # h1.mod)
            h2 == cands[(H3(Seed, i, 2) % Len(cands)) + 1]
            kind == i % 3
            stmts == CASE kind = 0 -> << Upd(X, 1), Set(Y, Bin("-", h1.e, h2.e)), Upd(X, 2) >>
                       [] kind = 1 -> << Set(Y, h1.e), Upd(X, 1), Set(Y, Bin("+", Y, h2.e)), Upd(X, 2) >>
                       [] kind = 2 -> << ExprS(h1.e), Set(Y, h2.e), ExprS(h1.e) >>
        IN  P("h2-" \o ToString(i), stmts, <<"hybrid2", ToString(kind), h1.tag, h2.tag>>)]

\* statement-expressions in BOTH arms of ?: (only the selected arm's statements may run), also nested
SEs == << StmtExpr(<< Upd(X, 4) >>, X),
          StmtExpr(<< Decl(S32, "t", Bin("+", A, K(1))), Upd(X, 6) >>, Bin("+", Var("t"), X)),
          StmtExpr(<< Upd(X, 5), Set(Rx, X) >>, Bin("-", Rx, K(2))) >>
C1 == Bin("&", A, K(1))
C2 == Bin("&", A, K(2))
BothArms ==
    [i \in 1..(9 * 3) |->
        LET e1 == SEs[((i - 1) % 3) + 1]
            e2 == SEs[(((i - 1) \div 3) % 3) + 1]
            ctx == (i - 1) \div 9
            stmts == CASE ctx = 0 -> << Upd(X, 1), Set(Y, Cond(C1, e1, e2)), Upd(X, 2) >>
                       [] ctx = 1 -> << Upd(X, 1), Decl(S32, "z", Cond(C1, e1, e2)), Upd(X, 2), Set(Y, Var("z")) >>
                       [] ctx = 2 -> << Upd(X, 1), Set(Y, Cond(C1, e1, Cond(C2, e2, e1))), Upd(X, 2) >>
        IN  P("hb-" \o ToString(i), stmts, <<"botharms", ToString(ctx)>>)]

\* constant-condition ?: with side-effecting arms, followed by further side-effecting operations in the same statement:
\* only the selected arm exists after folding, and the temporaries of the remaining operations must stay distinct
CFalse == << K(0), Bin("==", K(1), K(0)) >>
CTrue == << K(1), Bin("<", K(1), K(2)) >>
ConstArms ==
    [i \in 1..(NH * 4) |->
        LET h == Hybrids[((i - 1) % NH) + 1]
            v == (i - 1) \div NH
            \* (fresh locals, so that no object is modified twice or modified and read without a sequence point)
            other == Postfix("++", Var("p2"))
            third == Call("clz32", <<CastE(U32, Postfix("++", Var("w")))>>)
            e == CASE v = 0 -> Cond(CFalse[1], other, h.e)
                   [] v = 1 -> Cond(CTrue[1], h.e, other)
                   [] v = 2 -> Cond(CFalse[2], Call("clz32", <<CastE(U32, A)>>), h.e)
                   [] v = 3 -> Cond(CTrue[2], h.e, Call("hinc", <<A>>))
        IN  P("hk-" \o ToString(i), << Decl(S32, "p1", K(5)), Decl(S32, "p2", K(70)), Decl(U32, "w", K(9)), Upd(X, 1),
                                        Decl(S32, "z", Bin("+", Bin("+", e, Postfix("++", Var("p1"))), CastE(S32, third))), Upd(X, 2),
                                        Set(Y, Bin("+", Bin("+", Y, Var("z")), Bin("+", Var("p1"), Bin("+", Var("p2"), CastE(S32, Var("w")))))) >>,
              <<"constarm", ToString(v), h.tag>>)]

\* no hybrid at all (control group)
Controls == << P("h0-plain", << Upd(X, 1), Set(Y, Bin("+", X, K(1))), Upd(X, 2) >>, <<"control">>) >>

Programs == Singles \o Doubles \o BothArms \o ConstArms \o Controls
Out == [programs |-> Programs, subs |-> Subs]

VARIABLE x
Init == x = JsonSerialize(IOEnv.GEN_OUT, Out)
Next == FALSE /\ x' = x
=============================================================================
