---------------------------- MODULE Trace_CTypes ----------------------------
(***************************************************************************)
(* C04: call-trace validation of the implementation's common-type and      *)
(* promotion functions against CTypes!Common / CTypes!Promote.             *)
(* The harness calls the real functions on every ordered pair of types of  *)
(* the run's width set and logs one event per call:                        *)
(*   pair  event <<"c", sa, wa, sb, wb, rsa, rwa, rsb, rwb, flags>>        *)
(*   promo event <<"p", s, w, rs, rw, flags>>                              *)
(* flags (bit set): 1 argument a changed, 2 argument b changed,            *)
(*   4 result a is the argument object although its value differs,         *)
(*   8 same for b, 16 a second identical call gave a different result,     *)
(*   32 the call raised, 64 changing a returned object (not an argument)   *)
(*   changed an argument or the result of a later identical call.          *)
(* One TLC state per event; the verdict is computed in Next.               *)
(* The module also checks the specification itself (ClauseOk): Common is   *)
(* symmetric, idempotent and matches the three clauses of C11 6.3.1.8.     *)
(***************************************************************************)
EXTENDS CTypes, Json, IOUtils, TLCExt, TLC

Events == JsonDeserialize(IOEnv.TV_FILE).events
VARIABLES i, verdict
vars == <<i, verdict>>

B01(x) == x = 1

ClauseOk(a, b) ==
    LET c == Common(a, b) IN
    /\ c = Common(b, a)
    /\ Common(a, a) = a
    /\ (a.s = b.s => c = T(a.s, Max(a.w, b.w)))
    /\ (a.s # b.s =>
          LET u == IF a.s THEN b ELSE a  sg == IF a.s THEN a ELSE b
          IN  (u.w >= sg.w => c = u) /\ (u.w < sg.w => c = sg))
    /\ c.w = Max(a.w, b.w)

Verdict(e) ==
    IF e[1] = "c" THEN
        LET a == T(B01(e[2]), e[3])  b == T(B01(e[4]), e[5])
            ra == T(B01(e[6]), e[7]) rb == T(B01(e[8]), e[9])
            fl == e[10]
            c == Common(a, b)
        IN  IF (fl \div 32) % 2 = 1 THEN "the call raised (not total)"
            ELSE IF fl >= 64 THEN "returned type shares state with an argument or a later result"
            ELSE IF ~ClauseOk(a, b) THEN "specification clause"
            ELSE IF ra # c \/ rb # c THEN "result is not the C11 common type"
            ELSE IF fl % 2 = 1 THEN "argument a was modified"
            ELSE IF (fl \div 2) % 2 = 1 THEN "argument b was modified"
            ELSE IF (fl \div 4) % 2 = 1 \/ (fl \div 8) % 2 = 1 THEN "result aliases an argument of a different type"
            ELSE IF (fl \div 16) % 2 = 1 THEN "not deterministic"
            ELSE "ok"
    ELSE
        LET t == T(B01(e[2]), e[3]) r == T(B01(e[4]), e[5]) fl == e[6]
        IN  IF (fl \div 32) % 2 = 1 THEN "the call raised (not total)"
            ELSE IF fl >= 64 THEN "returned type shares state with an argument or a later result"
            ELSE IF r # Promote(t) THEN "result is not the promoted type"
            ELSE IF fl % 2 = 1 THEN "argument was modified"
            ELSE IF (fl \div 4) % 2 = 1 THEN "result aliases an argument of a different type"
            ELSE IF (fl \div 16) % 2 = 1 THEN "not deterministic"
            ELSE "ok"

Init == i \in 1..Len(Events) /\ verdict = "todo"
Next == /\ verdict = "todo"
        /\ LET v == Verdict(Events[i])
           IN  verdict' = v /\ (IF v = "ok" THEN TRUE ELSE PrintT("CTREPORT " \o ToJson([i |-> i, e |-> Events[i], v |-> v])))
        /\ UNCHANGED i
Spec == Init /\ [][Next]_vars
Accepted == verdict \in {"todo", "ok"}
=============================================================================
