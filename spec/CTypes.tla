------------------------------- MODULE CTypes -------------------------------
(***************************************************************************)
(* C11 integer types of the shortcode dialect (LP64, QEMU conventions) as  *)
(* records [s |-> signed, w |-> width]: integer promotion, usual           *)
(* arithmetic conversions with rank = width (6.3.1.8), conversion of       *)
(* values (6.3.1.3, narrowing keeps the low bits), literal typing          *)
(* (6.4.4.1).  This is the definition C04 is checked against.              *)
(***************************************************************************)
EXTENDS BV

T(s, w) == [s |-> s, w |-> w]
S8 == T(TRUE, 8)    U8 == T(FALSE, 8)
S16 == T(TRUE, 16)  U16 == T(FALSE, 16)
S32 == T(TRUE, 32)  U32 == T(FALSE, 32)
S64 == T(TRUE, 64)  U64 == T(FALSE, 64)
IntTypes == {S8, U8, S16, U16, S32, U32, S64, U64}

Max(a, b) == IF a >= b THEN a ELSE b

\* 6.3.1.1: every type whose rank is below int's promotes to int (all its values fit)
Promote(t) == IF t.w < 32 THEN S32 ELSE t

\* 6.3.1.8 with rank = width
Common(a, b) ==
    IF a.s = b.s THEN T(a.s, Max(a.w, b.w))
    ELSE LET u  == IF a.s THEN b ELSE a
             sg == IF a.s THEN a ELSE b
         IN  IF u.w >= sg.w THEN T(FALSE, u.w) ELSE T(TRUE, sg.w)

\* usual arithmetic conversions = promotion, then common type
Arith(a, b) == Common(Promote(a), Promote(b))

\* 6.3.1.3: value v of type `from' converted to type `to'
Convert(v, from, to) == Cast(to.w, from.s /\ Msb(v), v)

----------------------------------------------------------------------------
(* Literal typing, 6.4.4.1: first type of the list that can represent the    *)
(* value.  `v' is the 64-bit value as a bit vector, base is "dec" or "hex",  *)
(* suffix one of "", "U", "LL", "ULL" (case folded by the caller).           *)
Fits(v, bits) == \* value < 2^bits  (bits in 31, 32, 63, 64)
    IF bits >= 64 THEN TRUE ELSE IsZero(ShrN(v, bits, FALSE))

LitType(v, base, suffix) ==
    CASE suffix = "" /\ base = "dec" ->
            IF Fits(v, 31) THEN S32 ELSE S64   \* int, long (values >= 2^63 have no type; S64 wraps)
      [] suffix = "" /\ base = "hex" ->
            IF Fits(v, 31) THEN S32 ELSE IF Fits(v, 32) THEN U32
            ELSE IF Fits(v, 63) THEN S64 ELSE U64
      [] suffix = "U" -> IF Fits(v, 32) THEN U32 ELSE U64
      [] suffix = "LL" /\ base = "dec" -> S64
      [] suffix = "LL" /\ base = "hex" -> IF Fits(v, 63) THEN S64 ELSE U64
      [] suffix = "ULL" -> U64
=============================================================================
