INIT Init
NEXT Next
CONSTANT MaxW = 7
CONSTANT LB <- SmallLB
INVARIANT Holds
CHECK_DEADLOCK FALSE
