-------------------------------- MODULE Shapes --------------------------------
(***************************************************************************)
(* Shape predicates over source trees: the keys of those known findings    *)
(* that are not one rule of the oracle (DESIGN.md section 7).  A failing   *)
(* case is attributed to such a finding only if its predicate holds; the   *)
(* generators always produce the neighbouring programs outside every shape.*)
(***************************************************************************)
EXTENDS Naturals, Sequences, FiniteSets

RECURSIVE ExprNodes(_)
RECURSIVE StmtNodes(_)
SeqNodes(ss) == UNION {StmtNodes(ss[i]) : i \in 1..Len(ss)}

\* all expression nodes of an expression (including itself), crossing statement expressions
ExprNodes(e) ==
    LET k == e.k IN
    {e} \cup
    CASE k \in {"un", "cast", "postfix", "load", "sizeof", "prefix"} -> ExprNodes(e.a)
      [] k \in {"bin", "comma"} -> ExprNodes(e.a) \cup ExprNodes(e.b)
      [] k = "cond" -> ExprNodes(e.c) \cup ExprNodes(e.a) \cup ExprNodes(e.b)
      [] k = "assign" -> ExprNodes(e.l) \cup ExprNodes(e.r)
      [] k = "call" -> UNION {ExprNodes(e.args[i]) : i \in 1..Len(e.args)}
      [] k = "stmtexpr" -> SeqNodes(e.body) \cup ExprNodes(e.e)
      [] OTHER -> {}

StmtNodes(s) ==
    LET k == s.k IN
    CASE k = "decl" -> IF s.init.k = "none" THEN {} ELSE ExprNodes(s.init)
      [] k = "expr" -> ExprNodes(s.e)
      [] k = "block" -> SeqNodes(s.b)
      [] k = "if" -> ExprNodes(s.c) \cup SeqNodes(s.t) \cup SeqNodes(s.e)
      [] k = "for" -> (IF s.init.k = "none" THEN {} ELSE StmtNodes(s.init))
                      \cup (IF s.c.k = "none" THEN {} ELSE ExprNodes(s.c))
                      \cup (IF s.step.k = "none" THEN {} ELSE ExprNodes(s.step)) \cup SeqNodes(s.body)
      [] k \in {"while", "do"} -> ExprNodes(s.c) \cup SeqNodes(s.body)
      [] k = "return" -> IF s.e.k = "none" THEN {} ELSE ExprNodes(s.e)
      [] k = "store" -> ExprNodes(s.a) \cup ExprNodes(s.v)
      [] k = "jump" -> ExprNodes(s.a)
      [] OTHER -> {}

RECURSIVE AllStmts(_)
RECURSIVE StmtsOfExpr(_)
SeqStmts(ss) == UNION {AllStmts(ss[i]) : i \in 1..Len(ss)}

\* statements nested in statement-expressions of an expression
StmtsOfExpr(e) == UNION {SeqStmts(n.body) : n \in {m \in ExprNodes(e) : m.k = "stmtexpr"}}

ExprsOfStmt(s) ==
    LET k == s.k IN
    CASE k = "decl" -> IF s.init.k = "none" THEN {} ELSE {s.init}
      [] k = "expr" -> {s.e}
      [] k = "if" -> {s.c}
      [] k = "for" -> (IF s.c.k = "none" THEN {} ELSE {s.c}) \cup (IF s.step.k = "none" THEN {} ELSE {s.step})
      [] k \in {"while", "do"} -> {s.c}
      [] k = "return" -> IF s.e.k = "none" THEN {} ELSE {s.e}
      [] k = "store" -> {s.a, s.v}
      [] k = "jump" -> {s.a}
      [] OTHER -> {}

AllStmts(s) ==
    LET k == s.k
        sub == CASE k = "block" -> SeqStmts(s.b)
                 [] k = "if" -> SeqStmts(s.t) \cup SeqStmts(s.e)
                 [] k = "for" -> (IF s.init.k = "none" THEN {} ELSE AllStmts(s.init)) \cup SeqStmts(s.body)
                 [] k \in {"while", "do"} -> SeqStmts(s.body)
                 [] OTHER -> {}
    IN  {s} \cup sub \cup UNION {StmtsOfExpr(e) : e \in ExprsOfStmt(s)}

PureCalls == {"extract32", "extract64", "sextract64", "deposit32", "deposit64", "bswap16", "bswap32", "bswap64",
              "REGFIELD", "get_corresponding_CS", "fatal"}
IsHybrid(e) == e.k \in {"postfix", "stmtexpr"} \/ (e.k = "call" /\ e.f \notin PureCalls) \/ e.k = "assign"
ContainsHybrid(e) == \E n \in ExprNodes(e) : IsHybrid(n)

\* S1: a side-effecting sub-expression sits inside an arm of ?: without being that arm's
\*     statement-expression itself (the compiler only guards an arm that *is* a statement expression)
RECURSIVE IsConstExpr(_)
IsConstExpr(e) ==
    CASE e.k = "num" -> TRUE
      [] e.k \in {"un", "cast"} -> IsConstExpr(e.a)
      [] e.k = "bin" -> IsConstExpr(e.a) /\ IsConstExpr(e.b)
      [] OTHER -> FALSE
\* (a ?: whose condition is a compile-time constant is folded: only the selected arm exists, nothing needs a guard)
CondArmHybrid(body) ==
    \E n \in SeqNodes(body) :
        n.k = "cond" /\ ~IsConstExpr(n.c) /\ \E arm \in {n.a, n.b} :
            IF arm.k = "stmtexpr"
            THEN FALSE
            ELSE ContainsHybrid(arm)

\* S1e: the value expression of a statement-expression is itself side-effecting (a call, a postfix operation, a nested
\*      statement-expression): its pending effect is queued in front of the statement-expression's statements
StmtExprValueHybrid(body) ==
    \E n \in SeqNodes(body) : n.k = "stmtexpr" /\ \E m \in ExprNodes(n.e) : IsHybrid(m) /\ m.k # "assign"

\* S2: a side-effecting sub-expression is the right operand of && or ||
LogicalRhsHybrid(body) ==
    \E n \in SeqNodes(body) : n.k = "bin" /\ n.o \in {"&&", "||"} /\ ContainsHybrid(n.b)

\* leaves (registers, variables, immediates) of an expression / statement list as a *sequence* (with repetitions)
RECURSIVE LeavesE(_)
RECURSIVE LeavesS(_)
RECURSIVE LeavesSeq(_, _)
LeavesSeq(ss, i) == IF i > Len(ss) THEN <<>> ELSE LeavesS(ss[i]) \o LeavesSeq(ss, i + 1)
RECURSIVE LeavesArgs(_, _)
LeavesArgs(as, i) == IF i > Len(as) THEN <<>> ELSE LeavesE(as[i]) \o LeavesArgs(as, i + 1)
LeavesE(e) ==
    LET k == e.k IN
    CASE k \in {"reg", "var", "imm"} -> <<e>>
      [] k \in {"un", "cast", "postfix", "load", "sizeof", "prefix"} -> LeavesE(e.a)
      [] k \in {"bin", "comma"} -> LeavesE(e.a) \o LeavesE(e.b)
      [] k = "cond" -> LeavesE(e.c) \o LeavesE(e.a) \o LeavesE(e.b)
      [] k = "assign" -> LeavesE(e.l) \o LeavesE(e.r)
      [] k = "call" -> LeavesArgs(e.args, 1)
      [] k = "stmtexpr" -> LeavesSeq(e.body, 1) \o LeavesE(e.e)
      [] OTHER -> <<>>
LeavesS(s) ==
    LET k == s.k IN
    CASE k = "decl" -> IF s.init.k = "none" THEN <<>> ELSE LeavesE(s.init)
      [] k = "expr" -> LeavesE(s.e)
      [] k = "block" -> LeavesSeq(s.b, 1)
      [] k = "if" -> LeavesE(s.c) \o LeavesSeq(s.t, 1) \o LeavesSeq(s.e, 1)
      [] k = "for" -> (IF s.init.k = "none" THEN <<>> ELSE LeavesS(s.init)) \o (IF s.c.k = "none" THEN <<>> ELSE LeavesE(s.c))
                      \o (IF s.step.k = "none" THEN <<>> ELSE LeavesE(s.step)) \o LeavesSeq(s.body, 1)
      [] k \in {"while", "do"} -> LeavesE(s.c) \o LeavesSeq(s.body, 1)
      [] k = "return" -> IF s.e.k = "none" THEN <<>> ELSE LeavesE(s.e)
      [] k = "store" -> LeavesE(s.a) \o LeavesE(s.v)
      [] k = "jump" -> LeavesE(s.a)
      [] OTHER -> <<>>
CountIn(sq, x) == Cardinality({i \in 1..Len(sq) : sq[i] = x})


\* S3: a ?: with a constant condition one of whose arms mentions a register / variable / immediate that
\*     also occurs outside that arm (folding the conditional removes the shared operand's declaration)
ConstCondShared(body) ==
    LET all == LeavesSeq(body, 1) IN
    \E n \in SeqNodes(body) :
        n.k = "cond" /\ IsConstExpr(n.c) /\
        \E arm \in {n.a, n.b} :
            LET la == LeavesE(arm) IN \E i \in 1..Len(la) : CountIn(all, la[i]) > CountIn(la, la[i])

\* S4: an expression statement whose value is not used is itself a side-effecting operation
\*     (x++;  f(a);  ({ ...; v; });): its pending effect has no consumer and is queued at the front
UnusedHybridStmt(body) ==
    \E st \in SeqStmts(body) : st.k = "expr" /\ st.e.k \in {"postfix", "stmtexpr", "call"} /\ IsHybrid(st.e)

\* S5: a side-effecting operation inside the condition of a for loop (it is sequenced once, before the loop)
LoopCondHybrid(body) ==
    \E st \in SeqStmts(body) : st.k = "for" /\ st.c.k # "none" /\ ContainsHybrid(st.c)

\* sub-routines called (transitively) from a body; csubs: name -> [params, ret, void, body]
CalledIn(body) == {n.f : n \in {m \in SeqNodes(body) : m.k = "call"}}
RECURSIVE Reach(_, _, _)
Reach(todo, seen, csubs) ==
    IF todo = {} THEN seen
    ELSE LET f == CHOOSE x \in todo : TRUE
             new == IF f \in DOMAIN csubs THEN CalledIn(csubs[f].body) \ (seen \cup {f}) ELSE {}
         IN  Reach((todo \ {f}) \cup new, seen \cup {f}, csubs)
Callees(body, csubs) == Reach(CalledIn(body), {}, csubs) \cap DOMAIN csubs

\* a statement list in which a statement containing a return is followed by another statement
RECURSIVE EarlyReturnList(_)
HasReturn(st) == \E x \in AllStmts(st) : x.k = "return"
SubLists(st) ==
    CASE st.k = "block" -> {st.b}
      [] st.k = "if" -> {st.t, st.e}
      [] st.k \in {"for", "while", "do"} -> {st.body}
      [] OTHER -> {}
EarlyReturnList(ss) ==
    \/ \E i \in 1..(Len(ss) - 1) : HasReturn(ss[i])
    \/ \E i \in 1..Len(ss) : \E l \in SubLists(ss[i]) : EarlyReturnList(l)
\* S6: the program calls a sub-routine in which a return is not the end of the body (the emitted body
\*     does not stop at SETL ret_val: the statements after an early return still execute)
CallsEarlyReturn(body, csubs) == \E f \in Callees(body, csubs) : EarlyReturnList(csubs[f].body)

DeclNames(ss) == {st.n : st \in {x \in SeqStmts(ss) : x.k = "decl"}}
\* S7: a local of the caller has the same name as a local of a (transitively) called sub-routine: callee
\*     bodies are inlined into the caller's flat variable namespace
CalleeLocalNameClash(body, csubs) ==
    \E f \in Callees(body, csubs) : DeclNames(csubs[f].body) \cap DeclNames(body) # {}

ShapesOfCase(body, csubs) ==
    (IF CallsEarlyReturn(body, csubs) THEN {"CallsEarlyReturn"} ELSE {}) \cup
    (IF CalleeLocalNameClash(body, csubs) THEN {"CalleeLocalNameClash"} ELSE {})

ShapesOf(body) ==
    (IF ConstCondShared(body) THEN {"ConstCondShared"} ELSE {}) \cup
    (IF UnusedHybridStmt(body) THEN {"UnusedHybridStmt"} ELSE {}) \cup
    (IF LoopCondHybrid(body) THEN {"LoopCondHybrid"} ELSE {}) \cup
    (IF CondArmHybrid(body) THEN {"CondArmHybrid"} ELSE {}) \cup
    (IF StmtExprValueHybrid(body) THEN {"StmtExprValueHybrid"} ELSE {})
        \cup (IF LogicalRhsHybrid(body) THEN {"LogicalRhsHybrid"} ELSE {})
=============================================================================
