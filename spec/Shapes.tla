-------------------------------- MODULE Shapes --------------------------------
(***************************************************************************)
(* Shape predicates over source trees: the keys of those known findings    *)
(* that are not one rule of the oracle (DESIGN.md section 7).  A failing   *)
(* case is attributed to such a finding only if its predicate holds; the   *)
(* generators always produce the neighbouring programs outside every shape.*)
(***************************************************************************)
EXTENDS Naturals, Sequences, FiniteSets

RECURSIVE ExprNodes(_)
RECURSIVE StmtNodes(_)
SeqNodes(ss) == UNION {StmtNodes(ss[i]) : i \in 1..Len(ss)}

\* all expression nodes of an expression (including itself), crossing statement expressions
ExprNodes(e) ==
    LET k == e.k IN
    {e} \cup
    CASE k \in {"un", "cast", "postfix", "load", "sizeof", "prefix"} -> ExprNodes(e.a)
      [] k \in {"bin", "comma"} -> ExprNodes(e.a) \cup ExprNodes(e.b)
      [] k = "cond" -> ExprNodes(e.c) \cup ExprNodes(e.a) \cup ExprNodes(e.b)
      [] k = "assign" -> ExprNodes(e.l) \cup ExprNodes(e.r)
      [] k = "call" -> UNION {ExprNodes(e.args[i]) : i \in 1..Len(e.args)}
      [] k = "stmtexpr" -> SeqNodes(e.body) \cup ExprNodes(e.e)
      [] OTHER -> {}

StmtNodes(s) ==
    LET k == s.k IN
    CASE k = "decl" -> IF s.init.k = "none" THEN {} ELSE ExprNodes(s.init)
      [] k = "expr" -> ExprNodes(s.e)
      [] k = "block" -> SeqNodes(s.b)
      [] k = "if" -> ExprNodes(s.c) \cup SeqNodes(s.t) \cup SeqNodes(s.e)
      [] k = "for" -> (IF s.init.k = "none" THEN {} ELSE StmtNodes(s.init))
                      \cup (IF s.c.k = "none" THEN {} ELSE ExprNodes(s.c))
                      \cup (IF s.step.k = "none" THEN {} ELSE ExprNodes(s.step)) \cup SeqNodes(s.body)
      [] k \in {"while", "do"} -> ExprNodes(s.c) \cup SeqNodes(s.body)
      [] k = "return" -> IF s.e.k = "none" THEN {} ELSE ExprNodes(s.e)
      [] k = "store" -> ExprNodes(s.a) \cup ExprNodes(s.v)
      [] k = "jump" -> ExprNodes(s.a)
      [] OTHER -> {}

PureCalls == {"extract32", "extract64", "sextract64", "deposit32", "deposit64", "bswap16", "bswap32", "bswap64",
              "REGFIELD", "get_corresponding_CS", "fatal"}
IsHybrid(e) == e.k \in {"postfix", "stmtexpr"} \/ (e.k = "call" /\ e.f \notin PureCalls) \/ e.k = "assign"
ContainsHybrid(e) == \E n \in ExprNodes(e) : IsHybrid(n)

\* S1: a side-effecting sub-expression sits inside an arm of ?: without being that arm's
\*     statement-expression itself (the compiler only guards an arm that *is* a statement expression)
CondArmHybrid(body) ==
    \E n \in SeqNodes(body) :
        n.k = "cond" /\ \E arm \in {n.a, n.b} :
            IF arm.k = "stmtexpr"
            THEN FALSE
            ELSE ContainsHybrid(arm)

\* S2: a side-effecting sub-expression is the right operand of && or ||
LogicalRhsHybrid(body) ==
    \E n \in SeqNodes(body) : n.k = "bin" /\ n.o \in {"&&", "||"} /\ ContainsHybrid(n.b)

ShapesOf(body) ==
    (IF CondArmHybrid(body) THEN {"CondArmHybrid"} ELSE {})
        \cup (IF LogicalRhsHybrid(body) THEN {"LogicalRhsHybrid"} ELSE {})
=============================================================================
