--------------------------------- MODULE BV ---------------------------------
(***************************************************************************)
(* Bit vectors of arbitrary width for TLC.  TLC integers are 32 bit, so a  *)
(* value is a record [w |-> width, l |-> little-endian sequence of limbs]  *)
(* with LB-bit limbs (LB = 8 in every property check; the oracle-sanity    *)
(* model overrides LB with 2 so that carries, borrows and limb-crossing    *)
(* shifts are exercised exhaustively on tiny widths).  The top limb is     *)
(* always masked to the width.  Booleans are TLA+ booleans.                *)
(***************************************************************************)
EXTENDS Naturals, Sequences, Bitwise

LB == 8
BASE == 2^LB
LMAX == BASE - 1

NL(w) == (w + LB - 1) \div LB
TopBits(w) == IF w % LB = 0 THEN LB ELSE w % LB
TopMask(w) == 2^TopBits(w) - 1

Mk(w, l) == [w |-> w, l |-> l]
Norm(w, l) == Mk(w, [i \in 1..NL(w) |-> IF i = NL(w) THEN l[i] & TopMask(w) ELSE l[i]])

Zero(w) == Mk(w, [i \in 1..NL(w) |-> 0])
Ones(w) == Mk(w, [i \in 1..NL(w) |-> IF i = NL(w) THEN TopMask(w) ELSE LMAX])

\* value of a small natural (n < 2^31) as a bit vector of width w (low bits)
FromNat(w, n) ==
    Norm(w, [i \in 1..NL(w) |-> IF (i - 1) * LB >= 31 THEN 0 ELSE (n \div (2^((i - 1) * LB))) % BASE])
One(w) == FromNat(w, 1)

IsBV(x) == DOMAIN x = {"w", "l"}

Msb(a) == (a.l[NL(a.w)] \div (2^(TopBits(a.w) - 1))) % 2 = 1
IsZero(a) == \A i \in 1..NL(a.w) : a.l[i] = 0
NonZero(a) == ~IsZero(a)
Bit(a, k) == (a.l[(k \div LB) + 1] \div (2^(k % LB))) % 2   \* k-th bit (0 = lsb) as 0/1

\* Limb j of `a' conceptually extended to infinitely many bits with fill bit f.
Ext(a, j, f) ==
    LET n == NL(a.w)
    IN  IF j < n THEN a.l[j]
        ELSE IF j = n THEN (IF f THEN a.l[n] + (LMAX - TopMask(a.w)) ELSE a.l[n])
        ELSE (IF f THEN LMAX ELSE 0)

Cast(w, f, a) == Norm(w, [i \in 1..NL(w) |-> Ext(a, i, f)])
ZExt(w, a) == Cast(w, FALSE, a)
SExt(w, a) == Cast(w, Msb(a), a)

----------------------------------------------------------------------------
\* bitwise
AndBV(a, b) == Mk(a.w, [i \in 1..NL(a.w) |-> a.l[i] & b.l[i]])
OrBV(a, b)  == Mk(a.w, [i \in 1..NL(a.w) |-> a.l[i] | b.l[i]])
XorBV(a, b) == Mk(a.w, [i \in 1..NL(a.w) |-> a.l[i] ^^ b.l[i]])
NotBV(a)    == Norm(a.w, [i \in 1..NL(a.w) |-> LMAX - a.l[i]])

----------------------------------------------------------------------------
\* arithmetic modulo 2^w
RECURSIVE AddL(_, _, _, _, _)
AddL(x, y, i, n, c) ==
    IF i > n THEN <<>>
    ELSE LET s == x[i] + y[i] + c IN <<s % BASE>> \o AddL(x, y, i + 1, n, s \div BASE)

AddC(a, b, c) == Norm(a.w, AddL(a.l, b.l, 1, NL(a.w), c))
Add(a, b) == AddC(a, b, 0)
Sub(a, b) == AddC(a, NotBV(b), 1)
Neg(a)    == AddC(Zero(a.w), NotBV(a), 1)

RECURSIVE ColSum(_, _, _, _)
\* sum of x[i] * y[k + 1 - i] for i in lo..k
ColSum(x, y, k, i) == IF i > k THEN 0 ELSE x[i] * y[k + 1 - i] + ColSum(x, y, k, i + 1)

RECURSIVE MulL(_, _, _, _, _)
MulL(x, y, k, n, c) ==
    IF k > n THEN <<>>
    ELSE LET s == ColSum(x, y, k, 1) + c IN <<s % BASE>> \o MulL(x, y, k + 1, n, s \div BASE)

Mul(a, b) == Norm(a.w, MulL(a.l, b.l, 1, NL(a.w), 0))

----------------------------------------------------------------------------
\* comparisons
RECURSIVE UltL(_, _, _)
UltL(x, y, i) == IF i = 0 THEN FALSE
                 ELSE IF x[i] < y[i] THEN TRUE
                 ELSE IF x[i] > y[i] THEN FALSE
                 ELSE UltL(x, y, i - 1)
Eq(a, b)  == a.l = b.l
Ult(a, b) == UltL(a.l, b.l, NL(a.w))
Ule(a, b) == ~Ult(b, a)
Slt(a, b) == IF Msb(a) # Msb(b) THEN Msb(a) ELSE Ult(a, b)
Sle(a, b) == ~Slt(b, a)

----------------------------------------------------------------------------
\* shifts by a natural number k
BIGCOUNT == 1000000
\* the numeric value of a bit vector if it is below 2^(2*LB) (enough for every shift count that
\* matters), BIGCOUNT otherwise
Count(b) ==
    LET n == NL(b.w)
    IN  IF \E i \in 3..n : b.l[i] # 0 THEN BIGCOUNT
        ELSE b.l[1] + (IF n >= 2 THEN BASE * b.l[2] ELSE 0)

ShlN(a, k) ==
    IF k >= a.w THEN Zero(a.w)
    ELSE LET q == k \div LB
             r == k % LB
             lim(j) == IF j >= 1 THEN a.l[j] ELSE 0
         IN  Norm(a.w, [i \in 1..NL(a.w) |->
                 ((lim(i - q) * (2^r)) % BASE) + (IF r = 0 THEN 0 ELSE shiftR(lim(i - q - 1), LB - r))])

ShrN(a, k, f) ==
    IF k >= a.w THEN (IF f THEN Ones(a.w) ELSE Zero(a.w))
    ELSE LET q == k \div LB
             r == k % LB
         IN  Norm(a.w, [i \in 1..NL(a.w) |->
                 shiftR(Ext(a, i + q, f), r) + (IF r = 0 THEN 0 ELSE (Ext(a, i + q + 1, f) * (2^(LB - r))) % BASE)])

Shl(a, b)  == ShlN(a, Count(b))
Shr0(a, b) == ShrN(a, Count(b), FALSE)
ShrA(a, b) == ShrN(a, Count(b), Msb(a))

----------------------------------------------------------------------------
RECURSIVE TupOf(_, _)
\* a function constructor [i \in S |-> e] is a LAZY value in TLC (evaluated at every application, never cached); chains
\* of bit-vector operations nest such closures and a loop over them costs 2^depth.  Append is strict: TupOf rebuilds the
\* limb sequence as a tuple of evaluated integers.
TupOf(f, n) == IF n = 0 THEN <<>> ELSE Append(TupOf(f, n - 1), f[n])
Strict(a) == Mk(a.w, TupOf(a.l, NL(a.w)))

\* unsigned division (restoring, bit by bit); x / 0 = all ones, x mod 0 = x   (RzIL convention)
\* One step of restoring division on *values* (no laziness): s = [q, r] so far, bit k of a is next.
DivStepRec(a, d, k, s) ==
    LET r1 == LET sh == ShlN(s.r, 1) IN IF Bit(a, k) = 1 THEN OrBV(sh, One(a.w)) ELSE sh
        \* r < d <= 2^w - 1, so r1 = 2r+bit may overflow w bits only if Msb(r); then r1 >= d anyway
        ge == Msb(s.r) \/ ~Ult(r1, d)
    IN  [q |-> Strict(IF ge THEN OrBV(ShlN(s.q, 1), One(a.w)) ELSE ShlN(s.q, 1)),
         r |-> Strict(IF ge THEN Sub(r1, d) ELSE r1)]

RECURSIVE DivLoop(_, _, _, _)
\* TLC passes operator arguments as unevaluated thunks; in a recursion whose accumulator is used more
\* than once per level this chains thunks and the cost grows exponentially with the depth (measured:
\* 48-bit division > 100 s).  Binding through a singleton set forces the accumulator to a value once
\* per level:  {F(x) : x \in {e}}  evaluates e exactly once.
DivLoop(a, d, k, qr) ==
    CHOOSE res \in { IF k = 0 THEN <<n.q, n.r>> ELSE DivLoop(a, d, k - 1, n) :
                     n \in { DivStepRec(a, d, k, s) : s \in {qr} } } : TRUE

\* Fast path: divisor below 2^15 -> limb-wise long division with native integers
\* (rem < 2^15, so rem * BASE + limb < 2^23).
RECURSIVE DivSmallL(_, _, _, _)
DivSmallL(l, i, dn, rem) ==
    IF i = 0 THEN << <<>>, rem >>
    ELSE LET cur == rem * BASE + l[i]
             rest == DivSmallL(l, i - 1, dn, cur % dn)
         IN  << Append(rest[1], cur \div dn), rest[2] >>

SmallDivisor(d) == LB = 8 /\ Count(d) < 32768

\* the operands are forced to values first (see DivLoop)
UDivMod(a0, d0) ==
    CHOOSE res \in { (IF IsZero(d) THEN <<Ones(a.w), a>>
                      ELSE IF SmallDivisor(d)
                           THEN LET qr == DivSmallL(a.l, NL(a.w), Count(d), 0) IN << Mk(a.w, qr[1]), FromNat(a.w, qr[2]) >>
                      ELSE DivLoop(a, d, a.w - 1, [q |-> Zero(a.w), r |-> Zero(a.w)])) : a \in {a0}, d \in {d0} } : TRUE
UDiv(a, d) == UDivMod(a, d)[1]
UMod(a, d) == UDivMod(a, d)[2]

----------------------------------------------------------------------------
\* concatenation / extraction helpers used by the memory model
LimbsOf(a) == a.l
FromLimbs(w, l) == Norm(w, l)
\* low `n' limbs starting at limb index `from' (1-based)
SubLimbs(a, from, n) == [i \in 1..n |-> a.l[from + i - 1]]
=============================================================================
