--------------------------------- MODULE Cpp ---------------------------------
(***************************************************************************)
(* C20: macro resolution = standard C preprocessing under the patched      *)
(* macro set, followed by removal of every `do { X } while (0)` wrapper.   *)
(*                                                                         *)
(* Token-level macro expansion after Prosser's algorithm (the one the C    *)
(* standard's wording was derived from): object-like and function-like     *)
(* macros, full macro expansion of arguments before substitution, the ##   *)
(* operator (operands not expanded), rescanning together with the rest of  *)
(* the input, hide sets to stop recursion.  No # and no variadic macros:   *)
(* the bundled macro files use neither.                                    *)
(*   token  = [t |-> spelling, h |-> hide set (set of macro names)]        *)
(*   macro  = [fn |-> function-like?, params |-> <<names>>, body |-> <<spellings>>] *)
(*                                                                         *)
(* Also: the patch rule of the macro table (each patch replaces ALL        *)
(* original definitions of its macro, at the position of the first one;    *)
(* patches that replace nothing are prepended) and the do-while(0)         *)
(* stripping function, both as functions over sequences.                   *)
(***************************************************************************)
EXTENDS Naturals, Sequences, FiniteSets, TLC, Json, IOUtils

Data == JsonDeserialize(IOEnv.TV_FILE)
Macros == Data.macros           \* name -> macro
Items == Data.items             \* [id, src (spellings of the definition line), res (spellings of the bundled resolved line)]

Tk(s, h) == [t |-> s, h |-> h]
Plain(ss) == [i \in 1..Len(ss) |-> Tk(ss[i], {})]
Spell(ts) == [i \in 1..Len(ts) |-> ts[i].t]
IsMacro(n) == n \in DOMAIN Macros

\* Force: bind the value of an expression once (TLC passes operator arguments as thunks)
Force(F(_), e) == CHOOSE y \in {F(x) : x \in {e}} : TRUE

----------------------------------------------------------------------------
RECURSIVE FindClose(_, _, _)
\* index of the ")" that closes the "(" before position i (depth counts nested parentheses); 0 if none
FindClose(ts, i, depth) ==
    IF i > Len(ts) THEN 0
    ELSE IF ts[i].t = "(" THEN FindClose(ts, i + 1, depth + 1)
    ELSE IF ts[i].t = ")" THEN (IF depth = 0 THEN i ELSE FindClose(ts, i + 1, depth - 1))
    ELSE FindClose(ts, i + 1, depth)

RECURSIVE SplitArgs(_, _, _, _, _)
\* ts[i..hi] split at the commas of depth 0 -> sequence of token sequences; cur accumulates the current argument
SplitArgs(ts, i, hi, depth, cur) ==
    IF i > hi THEN <<cur>>
    ELSE LET t == ts[i].t IN
         IF t = "," /\ depth = 0 THEN <<cur>> \o SplitArgs(ts, i + 1, hi, 0, <<>>)
         ELSE SplitArgs(ts, i + 1, hi, IF t = "(" THEN depth + 1 ELSE IF t = ")" THEN depth - 1 ELSE depth, Append(cur, ts[i]))

ParamIdx(ps, n) == IF \E i \in 1..Len(ps) : ps[i] = n THEN CHOOSE i \in 1..Len(ps) : ps[i] = n ELSE 0
HsAdd(hs, ts) == [i \in 1..Len(ts) |-> Tk(ts[i].t, ts[i].h \cup hs)]
\* ## : paste the last token of ls with the first token of rs.  The result must be a single valid pp-token (C11 6.10.3.3p3,
\* otherwise the behaviour is undefined): identifier/pp-number with identifier/pp-number always is; anything with a
\* punctuator only if the concatenation is a punctuator again.  For the undefined case the model keeps the two tokens
\* apart (what pcpp and the error recovery of gcc/clang do).
Punct == {"[", "]", "(", ")", "{", "}", ".", "->", "++", "--", "&", "*", "+", "-", "~", "!", "/", "%", "<<", ">>", "<", ">", "<=", ">=",
          "==", "!=", "^", "|", "&&", "||", "?", ":", ";", "...", "=", "*=", "/=", "%=", "+=", "-=", "<<=", ">>=", "&=", "^=", "|=", ",", "#", "##"}
Pastable(l, r) == IF l \in Punct \/ r \in Punct THEN (l \o r) \in Punct ELSE TRUE
Glue(ls, rs) ==
    IF ls = <<>> THEN rs ELSE IF rs = <<>> THEN ls
    ELSE IF ~Pastable(ls[Len(ls)].t, rs[1].t) THEN ls \o rs
    ELSE SubSeq(ls, 1, Len(ls) - 1) \o <<Tk(ls[Len(ls)].t \o rs[1].t, ls[Len(ls)].h \cap rs[1].h)>> \o SubSeq(rs, 2, Len(rs))

RECURSIVE Expand(_)
RECURSIVE Subst(_, _, _, _, _, _)

\* body: spellings of the replacement list from position j; fp formal names; ap actual token sequences
Subst(body, j, fp, ap, hs, os) ==
    IF j > Len(body) THEN HsAdd(hs, os)
    ELSE
    LET s == body[j]
        pi == ParamIdx(fp, s)
        nxtIsPaste == j + 1 <= Len(body) /\ body[j + 1] = "##"
    IN
    IF s = "##" /\ j + 1 <= Len(body) THEN
        LET r == body[j + 1] ri == ParamIdx(fp, r)
            rs == IF ri > 0 THEN ap[ri] ELSE <<Tk(r, {})>>
        IN  Subst(body, j + 2, fp, ap, hs, Glue(os, rs))
    ELSE IF pi > 0 /\ nxtIsPaste THEN Subst(body, j + 1, fp, ap, hs, os \o ap[pi])        \* operand of ##: not expanded
    ELSE IF pi > 0 THEN Subst(body, j + 1, fp, ap, hs, os \o Expand(ap[pi]))               \* argument fully expanded first
    ELSE Subst(body, j + 1, fp, ap, hs, Append(os, Tk(s, {})))

ExpandV(ts) ==
    IF ts = <<>> THEN <<>>
    ELSE
    LET T == ts[1] IN
    IF IsMacro(T.t) /\ T.t \notin T.h THEN
        LET m == Macros[T.t] IN
        IF ~m.fn THEN Expand(Subst(m.body, 1, <<>>, <<>>, T.h \cup {T.t}, <<>>) \o Tail(ts))
        ELSE IF Len(ts) >= 2 /\ ts[2].t = "(" THEN
            LET close == FindClose(ts, 3, 0) IN
            IF close = 0 THEN <<T>> \o Expand(Tail(ts))
            ELSE LET raw == SplitArgs(ts, 3, close - 1, 0, <<>>)
                     args == IF Len(m.params) = 0 /\ raw = << <<>> >> THEN <<>> ELSE raw
                     hs == (T.h \cap ts[close].h) \cup {T.t}
                 IN  IF Len(args) # Len(m.params) THEN <<T>> \o Expand(Tail(ts))     \* not an invocation of this macro
                     ELSE Expand(Subst(m.body, 1, m.params, args, hs, <<>>) \o SubSeq(ts, close + 1, Len(ts)))
        ELSE <<T>> \o Expand(Tail(ts))
    ELSE <<T>> \o Expand(Tail(ts))

Expand(ts0) == Force(ExpandV, ts0)

----------------------------------------------------------------------------
\* do { X } while ( 0 )  ->  X   (spellings; innermost-first until none is left)
RECURSIVE MatchBrace(_, _, _)
MatchBrace(ss, i, depth) ==
    IF i > Len(ss) THEN 0
    ELSE IF ss[i] = "{" THEN MatchBrace(ss, i + 1, depth + 1)
    ELSE IF ss[i] = "}" THEN (IF depth = 0 THEN i ELSE MatchBrace(ss, i + 1, depth - 1))
    ELSE MatchBrace(ss, i + 1, depth)
IsWrapperAt(ss, i) ==
    /\ i + 1 <= Len(ss) /\ ss[i] = "do" /\ ss[i + 1] = "{"
    /\ LET j == MatchBrace(ss, i + 2, 0) IN
       j # 0 /\ j + 4 <= Len(ss) /\ ss[j + 1] = "while" /\ ss[j + 2] = "(" /\ ss[j + 3] = "0" /\ ss[j + 4] = ")"
RECURSIVE StripDW(_)
StripDWV(ss) ==
    LET W == {i \in 1..Len(ss) : IsWrapperAt(ss, i)} IN
    IF W = {} THEN ss
    ELSE LET i == CHOOSE x \in W : \A y \in W : y <= x        \* the last one is innermost or rightmost
             j == MatchBrace(ss, i + 2, 0)
         IN  StripDW(SubSeq(ss, 1, i - 1) \o SubSeq(ss, i + 2, j - 1) \o SubSeq(ss, j + 5, Len(ss)))
StripDW(ss0) == Force(StripDWV, ss0)

\* no invocation of a defined macro survives: an object-like name, or a function-like name followed by "("
Survivors(ss) == {i \in 1..Len(ss) : IsMacro(ss[i]) /\ (~Macros[ss[i]].fn \/ (i < Len(ss) /\ ss[i + 1] = "("))}

Resolve(src) == StripDW(Spell(Expand(Plain(src))))

----------------------------------------------------------------------------
\* patch rule over definition lists: defs / patches are sequences of [name, line]
RECURSIVE PatchL(_, _, _, _)
PatchL(defs, i, patches, done) ==
    IF i > Len(defs) THEN <<>>
    ELSE LET d == defs[i] IN
         IF d.name \in done THEN PatchL(defs, i + 1, patches, done)
         ELSE IF \E p \in 1..Len(patches) : patches[p].name = d.name
              THEN LET p == CHOOSE q \in 1..Len(patches) : patches[q].name = d.name /\ \A r \in 1..Len(patches) : patches[r].name = d.name => r <= q
                   IN  <<patches[p].line>> \o PatchL(defs, i + 1, patches, done \cup {d.name})
              ELSE <<d.line>> \o PatchL(defs, i + 1, patches, done)
\* patches whose macro has no original definition are put in front, one after the other (so they end up in reverse
\* order); a macro patched twice keeps the text of its last patch at the place of its first (a table keyed by name)
Reverse(s) == [i \in 1..Len(s) |-> s[Len(s) + 1 - i]]
LastLine(patches, n) == patches[CHOOSE q \in 1..Len(patches) : patches[q].name = n /\ \A r \in 1..Len(patches) : patches[r].name = n => r <= q].line
FirstOf(patches) == SelectSeq([i \in 1..Len(patches) |-> [p |-> patches[i], i |-> i]],
                              LAMBDA x : \A r \in 1..Len(patches) : patches[r].name = x.p.name => r >= x.i)
UserOnly(defs, patches) ==
    LET names == {defs[i].name : i \in 1..Len(defs)}
        u == SelectSeq(FirstOf(patches), LAMBDA x : x.p.name \notin names)
    IN  Reverse([i \in 1..Len(u) |-> LastLine(patches, u[i].p.name)])
PatchTable(defs, patches) == UserOnly(defs, patches) \o PatchL(defs, 1, patches, {})

----------------------------------------------------------------------------
\* Conditional inclusion of the macro header files (cleanup_macros).  A file is a sequence of logical lines
\*   [d |-> "ifdef" | "ifndef" | "else" | "endif" | "include" | "blank" | "comment" | "text", n |-> name, toks |-> tokens]
\* (continuation lines already spliced, C11 5.1.1.2 phase 2; a #define is "text").  Standard conditional inclusion
\* (C11 6.10.1) with a stack of groups, under the macro environment of the pipeline: QEMU_GENERATE and
\* CONFIG_USER_ONLY are NOT defined.  Two deliberate deviations of the pipeline, named here:
\*   FlattenOther : a condition on any other name (include guards, FIXME) keeps BOTH groups, in file order, so the
\*                  group standard preprocessing would take comes last and wins when the table is built;
\*   VecBoth      : in the vector macro file the groups under #ifdef QEMU_GENERATE are kept as well (their macros
\*                  have no other definition).
Known(it, vec) == it.d = "ifdef" /\ it.n \in {"QEMU_GENERATE", "CONFIG_USER_ONLY"} /\ ~(vec /\ it.n = "QEMU_GENERATE")
RECURSIVE CleanL(_, _, _, _)
CleanL(items, i, stack, vec) ==
    IF i > Len(items) THEN <<>>
    ELSE
    LET it == items[i]
        active == \A f \in 1..Len(stack) : stack[f].on
        n == Len(stack)
    IN  CASE it.d \in {"ifdef", "ifndef"} ->
                CleanL(items, i + 1, Append(stack, [on |-> ~Known(it, vec), flat |-> ~Known(it, vec)]), vec)
          [] it.d = "else" /\ n > 0 ->
                CleanL(items, i + 1, [stack EXCEPT ![n] = IF @.flat THEN @ ELSE [@ EXCEPT !.on = ~@]], vec)
          [] it.d = "endif" /\ n > 0 -> CleanL(items, i + 1, SubSeq(stack, 1, n - 1), vec)
          [] it.d \in {"include", "blank", "comment", "else", "endif"} -> CleanL(items, i + 1, stack, vec)
          [] OTHER -> (IF active /\ it.toks # <<>> THEN <<it.toks>> ELSE <<>>) \o CleanL(items, i + 1, stack, vec)
RECURSIVE CleanFiles(_, _)
CleanFiles(files, k) == IF k > Len(files) THEN <<>> ELSE CleanL(files[k].items, 1, <<>>, files[k].vec) \o CleanFiles(files, k + 1)

----------------------------------------------------------------------------
VARIABLES x, verdict
Verdict(it) ==
    IF it.kind = "resolve" THEN
        LET r == Resolve(it.src) IN
        IF r # it.res THEN
            LET n == CHOOSE k \in 1..(Len(r) + 1) : (k > Len(r) \/ k > Len(it.res) \/ r[k] # it.res[k]) /\ \A q \in 1..(k - 1) : q <= Len(it.res) /\ r[q] = it.res[q]
            IN  [ok |-> FALSE, why |-> "resolved text differs from standard preprocessing at token " \o ToString(n),
                 exp |-> SubSeq(r, IF n > 3 THEN n - 3 ELSE 1, IF n + 3 <= Len(r) THEN n + 3 ELSE Len(r)),
                 got |-> SubSeq(it.res, IF n > 3 THEN n - 3 ELSE 1, IF n + 3 <= Len(it.res) THEN n + 3 ELSE Len(it.res))]
        ELSE IF Survivors(it.res) # {} THEN [ok |-> FALSE, why |-> "an invocation of a defined macro survives: " \o it.res[CHOOSE i \in Survivors(it.res) : TRUE]]
        ELSE [ok |-> TRUE]
    ELSE IF it.kind = "strip" THEN
        (IF StripDW(it.src) = it.res THEN [ok |-> TRUE] ELSE [ok |-> FALSE, why |-> "do-while(0) stripping differs", exp |-> StripDW(it.src), got |-> it.res])
    ELSE IF it.kind = "patch" THEN
        (IF PatchTable(it.defs, it.patches) = it.res THEN [ok |-> TRUE]
         ELSE [ok |-> FALSE, why |-> "patched macro table differs", exp |-> PatchTable(it.defs, it.patches), got |-> it.res])
    ELSE IF it.kind = "clean" THEN
        LET e == CleanFiles(it.files, 1) IN
        (IF e = it.res THEN [ok |-> TRUE]
         ELSE LET n == CHOOSE k \in 1..(Len(e) + 1) : (k > Len(e) \/ k > Len(it.res) \/ e[k] # it.res[k]) /\ \A q \in 1..(k - 1) : q <= Len(it.res) /\ e[q] = it.res[q]
              IN  [ok |-> FALSE, why |-> "cleaned macro lines differ at logical line " \o ToString(n),
                   exp |-> IF n <= Len(e) THEN e[n] ELSE <<"<end>">>, got |-> IF n <= Len(it.res) THEN it.res[n] ELSE <<"<end>">>])
    ELSE [ok |-> FALSE, why |-> "unknown item"]

Init == x \in 1..Len(Items) /\ verdict = <<>>
Next == /\ verdict = <<>>
        /\ LET v == Verdict(Items[x])
           IN  verdict' = <<v.ok>> /\ (IF v.ok THEN TRUE ELSE PrintT("CPREPORT " \o ToJson([id |-> Items[x].id, v |-> v])))
        /\ UNCHANGED x
Spec == Init /\ [][Next]_<<x, verdict>>
=============================================================================
