------------------------------ MODULE Gen_C09 ------------------------------
(***************************************************************************)
(* Input space of C09 (compile-time evaluation agrees with run-time        *)
(* evaluation): literal spellings decimal/hex x suffix x values around     *)
(* 2^7, 2^8, 2^15, 2^16, 2^31, 2^32, 2^63, 2^64-1 observed through         *)
(* operations whose result depends on the literal's C type (>>, <, unary   *)
(* minus, ~, conversion to 64 bit, sizeof); unary and binary folding of    *)
(* literal operands; literal comparisons; constant-condition ?: whose dead *)
(* arm mentions a register / local / call / statement-expression that is   *)
(* also used before, after or in the live arm; sizeof of every operand     *)
(* kind; exact, inexact and zero division of literals.                     *)
(***************************************************************************)
EXTENDS CSyntax, Json, IOUtils, SequencesExt

Tier == IOEnv.VERIF_TIER
Obs(e) == << Decl(S64, "r", e), Decl(U64, "q", e) >>
P(id, body, tags) == [id |-> id, body |-> body, tags |-> tags, fam |-> "std", gk |-> <<>>]

\* values as 64-bit bit vectors: 2^k - 1, 2^k, 2^k + 1 for the interesting k
Pow2(k) == ShlN(One(64), k)
Vals == Flatten([i \in 1..7 |->
            LET k == (<<7, 8, 15, 16, 31, 32, 63>>)[i]
            IN  << Sub(Pow2(k), One(64)), Pow2(k), Add(Pow2(k), One(64)) >>])
        \o << Ones(64), Zero(64), One(64), FromNat(64, 5) >>
LitSuffixes == <<"", "U", "LL", "ULL">>
LowerOf(s) == CASE s = "U" -> "u" [] s = "LL" -> "ll" [] s = "ULL" -> "ull" [] OTHER -> ""
Bases == <<"dec", "hex">>

Lit(v, base, sfx, lower) == [k |-> "num", v |-> v.l, base |-> base, suffix |-> sfx, sfx |-> IF lower THEN LowerOf(sfx) ELSE sfx]

\* a literal observed in several type-revealing contexts
LitProgs ==
    Flatten([i \in 1..(Len(Vals) * 4 * 2) |->
        LET v == Vals[((i - 1) % Len(Vals)) + 1]
            sfx == LitSuffixes[(((i - 1) \div Len(Vals)) % 4) + 1]
            base == Bases[((i - 1) \div (Len(Vals) * 4)) + 1]
            lower == i % 3 = 0
            l == Lit(v, base, sfx, lower)
            nm == ToString(i)
        IN  << P("lit-val-" \o nm, Obs(l), <<"literal", "value">>),
               P("lit-shr-" \o nm, Obs(Bin(">>", l, NumN(1))), <<"literal", "shr">>),
               P("lit-neg-" \o nm, Obs(Un("-", l)), <<"literal", "neg">>),
               P("lit-not-" \o nm, Obs(Un("~", l)), <<"literal", "not">>),
               P("lit-lt-" \o nm, Obs(Bin("<", l, NumN(1))), <<"literal", "lt">>),
               P("lit-add-" \o nm, << Decl(S32, "a", Rs) >> \o Obs(Bin("+", l, Var("a"))), <<"literal", "add">>),
               P("lit-szof-" \o nm, Obs(SizeofE(l)), <<"literal", "sizeof">>) >>])

\* folding of literal pairs
SmallLits == << NumN(0), NumN(1), NumN(6), NumN(3), NumN(7), HexN(255, ""), HexN(255, "U"), Lit(Ones(64), "hex", "ULL", FALSE),
                Lit(FromNat(64, 5), "dec", "LL", FALSE), Lit(ShlN(One(64), 31), "dec", "", FALSE), Lit(Sub(ShlN(One(64), 31), One(64)), "dec", "", FALSE) >>
FoldOps == <<"+", "-", "*", "/", "<", ">", "<=", ">=", "==", "!=">>
FoldProgs ==
    [i \in 1..(Len(SmallLits) * Len(SmallLits) * Len(FoldOps)) |->
        LET a == SmallLits[((i - 1) % Len(SmallLits)) + 1]
            b == SmallLits[(((i - 1) \div Len(SmallLits)) % Len(SmallLits)) + 1]
            o == FoldOps[((i - 1) \div (Len(SmallLits) * Len(SmallLits))) + 1]
        IN  P("fold-" \o ToString(i), Obs(Bin(o, a, b)), <<"fold", o>>)]

\* folding over folded operands: negative values (unary minus / complement of a literal) against signed and unsigned
\* literals -- the comparison / arithmetic must be done in the common type of the operands' C types
NegLits == << Un("-", NumN(1)), Un("-", NumN(7)), Un("~", NumN(0)), Un("-", Lit(FromNat(64, 5), "dec", "LL", FALSE)), Un("-", HexN(255, "U")) >>
MixOperands == NegLits \o << NumN(1), HexN(255, "U"), Lit(Ones(64), "hex", "ULL", FALSE), Lit(FromNat(64, 5), "dec", "LL", FALSE), NumN(0) >>
Fold2Ops == <<"<", ">", "<=", ">=", "==", "!=", "+", "-", "*", ">>", "&", "/">>
Fold2All ==
    [i \in 1..(Len(NegLits) * Len(MixOperands) * 2 * Len(Fold2Ops)) |->
        LET n == NegLits[((i - 1) % Len(NegLits)) + 1]
            m == MixOperands[(((i - 1) \div Len(NegLits)) % Len(MixOperands)) + 1]
            swap == (((i - 1) \div (Len(NegLits) * Len(MixOperands))) % 2) = 1
            o == Fold2Ops[((i - 1) \div (Len(NegLits) * Len(MixOperands) * 2)) + 1]
        IN  P("fold2-" \o ToString(i), Obs(IF swap THEN Bin(o, m, n) ELSE Bin(o, n, m)), <<"fold2", o>>)]
Fold2Progs == IF Tier = "thorough" THEN Fold2All ELSE SelectSeq(Fold2All, LAMBDA p : TRUE)

\* constant-condition ?: : the dead arm mentions something that is used elsewhere
\* (any non-zero constant selects the first arm: 2, -1, 1 - 0 + 1, 0x100000000)
Conds == << NumN(1), NumN(0), Bin("<", NumN(2), NumN(1)), Bin("==", NumN(3), NumN(3)), NumN(2), Un("-", NumN(1)),
           Bin("+", Bin("-", NumN(1), NumN(0)), NumN(1)), Lit(ShlN(One(64), 32), "hex", "LL", FALSE) >>
NThings == 8
Things(i) == (<< Rs, Var("a"), Call("clz32", <<Rs>>), StmtExpr(<< Set(Var("a"), Bin("+", Var("a"), NumN(1))) >>, Var("a")), Imm("s"), Load(FALSE, 32, Rs),
                 \* a non-constant ?: with a statement-expression arm nested in the (possibly dropped) arm
                 Cond(Bin(">", Rs, NumN(0)), NumN(1), StmtExpr(<< Decl(S32, "x7", Rt) >>, Bin("+", Var("x7"), NumN(1)))),
                 Cond(Bin(">", Rs, NumN(0)), StmtExpr(<< Decl(S32, "x8", Rt) >>, Bin("+", Var("x8"), NumN(2))), Var("a")) >>)[i]
CondProgs ==
    Flatten([i \in 1..(Len(Conds) * NThings) |->
        LET c == Conds[((i - 1) % Len(Conds)) + 1]
            th == Things(((i - 1) \div Len(Conds)) + 1)
            pre == << Decl(S32, "a", Rt) >>
        IN  << \* used before (in an earlier statement), dead/live in the conditional
               P("cc-before-" \o ToString(i), pre \o << Decl(S32, "b", CastE(S32, th)) >> \o Obs(Cond(c, NumN(7), CastE(S32, th))), <<"constcond", "before">>),
               P("cc-after-" \o ToString(i), pre \o Obs(Cond(c, CastE(S32, th), NumN(7))) \o << Set(Rd, CastE(S32, th)) >>, <<"constcond", "after">>),
               P("cc-both-" \o ToString(i), pre \o Obs(Cond(c, CastE(S32, th), Bin("+", CastE(S32, th), NumN(1)))), <<"constcond", "both">>) >>])

\* the arms of a constant-condition ?: have different types: the result has their COMMON type (known finding KF-D10c)
ArmPairs == << <<Un("-", NumN(1)), HexN(0, "U")>>, <<HexN(0, "U"), Un("-", NumN(1))>>, <<Un("-", NumN(1)), Rss>>, <<Rss, Un("-", NumN(1))>>,
               <<Var("a"), HexN(1, "U")>>, <<CastE(S8, Var("a")), Lit(FromNat(64, 5), "dec", "ULL", FALSE)>> >>
ArmTypeProgs ==
    [i \in 1..(Len(ArmPairs) * 2) |->
        LET pr == ArmPairs[((i - 1) % Len(ArmPairs)) + 1]
            c == IF i <= Len(ArmPairs) THEN NumN(1) ELSE Bin("==", NumN(1), NumN(0))
        IN  P("cc-armtype-" \o ToString(i), << Decl(S32, "a", Rt) >> \o Obs(Cond(c, pr[1], pr[2])), <<"constcond", "armtype">>)]

\* sizeof of every operand kind
SizeofProgs ==
    [i \in 1..14 |->
        LET e == (<< Rs, Rss, Reg("P", "u", FALSE, FALSE), Imm("u"), Var("a"), Var("c"), CastE(U8, Rs), Bin("+", Var("a"), Var("c")),
                     Alias("USR", FALSE), XReg("P", 0, FALSE),
                     Bin("==", Rs, Rt), Bin("<", Var("c"), Var("c")), Bin("&&", Var("a"), Var("c")), Un("!", Var("c")) >>)[i]
        IN  P("szof-" \o ToString(i), << Decl(S16, "a", Rt), Decl(S64, "c", Rss) >> \o Obs(SizeofE(e)) \o << Set(Rd, Var("a")) >>, <<"sizeof">>)]

Programs == LitProgs \o FoldProgs \o Fold2Progs \o CondProgs \o ArmTypeProgs \o SizeofProgs

VARIABLE x
Init == x = JsonSerialize(IOEnv.GEN_OUT, Programs)
Next == FALSE /\ x' = x
=============================================================================
