------------------------------ MODULE Lifecycle ------------------------------
(***************************************************************************)
(* C13 / C14: compiler instances, their transformer state, class-level     *)
(* state, the public entry points and failures.                            *)
(*                                                                         *)
(* Only these channels can carry something from one compilation to the     *)
(* next (read off the code, DESIGN.md 3.3); each is one variable:          *)
(*   flags[c]   the six attribute flags          (reset_flags)             *)
(*   preds[c]   written predicate numbers        (instance level since the *)
(*              fix; class level = deviation D1)                           *)
(*   left[c]    behaviours whose operands are still in the holder maps     *)
(*   pend[c]    behaviours whose pending hybrid sequences are still queued *)
(*   imm[c]     behaviours whose immediate SETLs are still queued          *)
(*   hyb[c]     running temp counter (never reset: renaming only)          *)
(*   subs       class-level registry of sub-routines (shared)              *)
(*                                                                         *)
(* Entry points (one action each; the library is sequential, so a call is  *)
(* atomic; its internal order is reset-at-start? / callbacks / reset-after)*)
(*   New(c)        Compiler(...)                                           *)
(*   Stmt(c, b)    compile_c_stmt: no reset at start, reset in finally     *)
(*   Insn(c, b)    transform_insn: reset before every part and in finally  *)
(*   AddSub(c, r)  add_sub_routine (compiled by a separate transformer)    *)
(* A behaviour b is a record of the features that touch state:             *)
(*   [flags, preds, imm (has immediates), pend (has hybrids), hyb (temps   *)
(*    numbered), ops (puts operands into the holder), fail (raises)]       *)
(* Named deviations (DESIGN.md section 7), both FALSE on the repaired tree:*)
(*   D1_PredsClassLevel   predicate numbers are never cleared              *)
(*   D2_NoResetOnFailure  compile_c_stmt does not reset when it raises     *)
(***************************************************************************)
EXTENDS Naturals, Sequences, FiniteSets, TLC, Json, IOUtils

CONSTANTS Insts,               \* compiler instances
          NB,                  \* number of abstract behaviours (catalogue below)
          MaxHist,             \* bound on the history length
          D1_PredsClassLevel, D2_NoResetOnFailure

\* abstract catalogue (the harness maps every entry to several concrete texts and checks that each
\* text has exactly these features)
Cat ==
  << [id |-> "plain",  flags |-> {},                 preds |-> {},  imm |-> FALSE, pend |-> FALSE, hyb |-> 0, ops |-> TRUE, fail |-> FALSE],
     [id |-> "cond",   flags |-> {"COND"},           preds |-> {},  imm |-> TRUE,  pend |-> FALSE, hyb |-> 0, ops |-> TRUE, fail |-> FALSE],
     [id |-> "newld",  flags |-> {"NEW", "MEM_READ"}, preds |-> {}, imm |-> TRUE,  pend |-> FALSE, hyb |-> 0, ops |-> TRUE, fail |-> FALSE],
     [id |-> "stjmp",  flags |-> {"MEM_WRITE", "BRANCH"}, preds |-> {}, imm |-> FALSE, pend |-> FALSE, hyb |-> 0, ops |-> TRUE, fail |-> FALSE],
     [id |-> "wp0",    flags |-> {"WPRED"},          preds |-> {0}, imm |-> FALSE, pend |-> FALSE, hyb |-> 0, ops |-> TRUE, fail |-> FALSE],
     [id |-> "wp13",   flags |-> {"WPRED", "COND"},  preds |-> {1, 3}, imm |-> FALSE, pend |-> FALSE, hyb |-> 0, ops |-> TRUE, fail |-> FALSE],
     [id |-> "wpd",    flags |-> {"WPRED"},          preds |-> {},  imm |-> FALSE, pend |-> FALSE, hyb |-> 0, ops |-> TRUE, fail |-> FALSE],
     [id |-> "hyb",    flags |-> {},                 preds |-> {},  imm |-> TRUE,  pend |-> TRUE,  hyb |-> 2, ops |-> TRUE, fail |-> FALSE],
     [id |-> "f_parse", flags |-> {},                preds |-> {},  imm |-> FALSE, pend |-> FALSE, hyb |-> 0, ops |-> FALSE, fail |-> TRUE],
     [id |-> "f_late", flags |-> {"COND", "MEM_READ", "WPRED"}, preds |-> {2}, imm |-> TRUE, pend |-> TRUE, hyb |-> 1, ops |-> TRUE, fail |-> TRUE],
     [id |-> "f_type", flags |-> {"NEW"},            preds |-> {},  imm |-> TRUE,  pend |-> FALSE, hyb |-> 0, ops |-> TRUE, fail |-> TRUE],
     \* fails at its first leaf: the attribute flag of that leaf is already set, nothing is in the holder yet
     [id |-> "f_early", flags |-> {"NEW"},           preds |-> {},  imm |-> FALSE, pend |-> FALSE, hyb |-> 0, ops |-> FALSE, fail |-> TRUE] >>
Behaviours == 1..NB
B(i) == Cat[i]
SubNames == {"g1", "g2"}

VARIABLES created, flags, preds, clsPreds, left, pend, imm, hyb, subs, hist, last
state == <<created, flags, preds, clsPreds, left, pend, imm, hyb, subs>>
vars == <<created, flags, preds, clsPreds, left, pend, imm, hyb, subs, hist, last>>
View == state                        \* history variables are hidden from the fingerprint

Init == /\ created = {}
        /\ flags = [c \in Insts |-> {}] /\ preds = [c \in Insts |-> {}] /\ clsPreds = {}
        /\ left = [c \in Insts |-> {}] /\ pend = [c \in Insts |-> {}] /\ imm = [c \in Insts |-> {}]
        /\ hyb = [c \in Insts |-> 0] /\ subs = {}
        /\ hist = <<>> /\ last = [ok |-> TRUE]

\* what a behaviour compiled on instance c in the *current* state returns (None if it raises)
PredsSeen(c, b) == B(b).preds \cup (IF D1_PredsClassLevel THEN clsPreds ELSE preds[c])
Out(c, b, fl, lf, pd, im) ==
    [ meta |-> B(b).flags \cup fl, wp |-> PredsSeen(c, b),
      extra_decls |-> lf, stale_pending |-> pd, stale_imm |-> im ]
FreshOut(b) == [ meta |-> B(b).flags, wp |-> B(b).preds, extra_decls |-> {}, stale_pending |-> {}, stale_imm |-> {} ]

Reset(c) == /\ flags' = [flags EXCEPT ![c] = {}]
            /\ preds' = [preds EXCEPT ![c] = {}]
            /\ left' = [left EXCEPT ![c] = {}]
            /\ pend' = [pend EXCEPT ![c] = {}]
            /\ imm' = [imm EXCEPT ![c] = {}]

Log(op, c, b, ok) == hist' = Append(hist, [op |-> op, c |-> c, b |-> b, ok |-> ok])

New(c) == /\ c \notin created /\ created' = created \cup {c}
          /\ UNCHANGED <<flags, preds, clsPreds, left, pend, imm, hyb, subs, last>>
          /\ Log("new", c, 0, TRUE)

\* compile_c_stmt(text of behaviour b) on instance c
Stmt(c, b) ==
    /\ c \in created
    /\ hyb' = [hyb EXCEPT ![c] = hyb[c] + B(b).hyb]
    /\ clsPreds' = clsPreds \cup B(b).preds
    /\ UNCHANGED <<created, subs>>
    /\ IF B(b).fail
       THEN /\ last' = [ok |-> FALSE]
            /\ Log("stmt", c, b, FALSE)
            /\ IF D2_NoResetOnFailure
               THEN /\ flags' = [flags EXCEPT ![c] = flags[c] \cup B(b).flags]
                    /\ preds' = [preds EXCEPT ![c] = preds[c] \cup B(b).preds]
                    /\ left' = [left EXCEPT ![c] = left[c] \cup (IF B(b).ops THEN {b} ELSE {})]
                    /\ pend' = [pend EXCEPT ![c] = pend[c] \cup (IF B(b).pend THEN {b} ELSE {})]
                    /\ imm' = [imm EXCEPT ![c] = imm[c] \cup (IF B(b).imm THEN {b} ELSE {})]
               ELSE Reset(c)
       ELSE /\ last' = [ok |-> TRUE, out |-> Out(c, b, flags[c], left[c], pend[c], imm[c]), fresh |-> FreshOut(b)]
            /\ Log("stmt", c, b, TRUE)
            /\ Reset(c)

\* transform_insn: reset first, so the result never depends on the instance's state
Insn(c, b) ==
    /\ c \in created
    /\ hyb' = [hyb EXCEPT ![c] = hyb[c] + B(b).hyb]
    /\ clsPreds' = clsPreds \cup B(b).preds
    /\ UNCHANGED <<created, subs>>
    /\ Reset(c)
    /\ IF B(b).fail
       THEN last' = [ok |-> FALSE] /\ Log("insn", c, b, FALSE)
       ELSE /\ last' = [ok |-> TRUE, out |-> [Out(c, b, {}, {}, {}, {}) EXCEPT !.wp = IF D1_PredsClassLevel THEN clsPreds \cup B(b).preds ELSE B(b).preds],
                        fresh |-> FreshOut(b)]
            /\ Log("insn", c, b, TRUE)

AddSub(c, r) ==
    /\ c \in created /\ subs' = subs \cup {r}
    /\ UNCHANGED <<created, flags, preds, clsPreds, left, pend, imm, hyb, last>>
    /\ Log("addsub", c, r, TRUE)

Next == /\ Len(hist) < MaxHist
        /\ \/ \E c \in Insts : New(c)
           \/ \E c \in Insts, b \in Behaviours : Stmt(c, b) \/ Insn(c, b)
           \/ \E c \in Insts, r \in SubNames : AddSub(c, r)
Spec == Init /\ [][Next]_vars

----------------------------------------------------------------------------
\* C14: whatever was compiled before (and however it ended), a compilation returns what a fresh
\* compiler returns
HistoryIndependent == last.ok => ("out" \notin DOMAIN last \/ last.out = last.fresh)
\* C13: the attribute list is a function of the part itself
AttrsOwn == last.ok => ("out" \notin DOMAIN last \/ (last.out.meta = last.fresh.meta /\ last.out.wp = last.fresh.wp))
\* between calls every instance is clean (what the replay harness compares the real objects with)
CleanBetweenCalls == \A c \in created : flags[c] = {} /\ preds[c] = {} /\ left[c] = {} /\ pend[c] = {} /\ imm[c] = {}

\* simulation mode: print each behaviour of full length as a replay script
DumpHist == Len(hist) < MaxHist \/ PrintT("LCHIST " \o ToJson([h |-> hist, hyb |-> hyb]))
=============================================================================
