SPECIFICATION SpecRef
CHECK_DEADLOCK FALSE
